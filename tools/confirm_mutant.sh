#!/bin/bash
# confirm_mutant.sh <worktree> : re-confirm a sub-agent's seeded change (demo passes on the pinned build,
# fails on the changed build; the pinned ctest suite passes on the changed build).  Output: <worktree>/confirm.log
WT=$1
{
echo "== patch applies to pinned tree?"; git -C /repo apply --check "$WT/MUTANT/patch.diff" && echo APPLY_OK
echo "== rebuild changed tree"; ninja -C "$WT/_build" 2>&1 | tail -1
echo "== demo on pinned build (/repo/_build) (expect exit 0)"; bash "$WT/MUTANT/run.sh" /repo/_build >/tmp/$$.o 2>&1; echo "exit=$?"; tail -5 /tmp/$$.o
echo "== demo on changed build (expect non-zero)"; bash "$WT/MUTANT/run.sh" "$WT/_build" >/tmp/$$.o 2>&1; echo "exit=$?"; tail -8 /tmp/$$.o
echo "== full ctest on changed build"; ctest --test-dir "$WT/_build" -j6 --timeout 900 2>&1 | tail -8
rm -f /tmp/$$.o
echo "== done"
} > "$WT/confirm.log" 2>&1

#!/bin/bash
# Build an ASan+UBSan copy of /repo's *current working tree* into a scratch cache.
# Usage: build.sh            -> prints the build dir on stdout (last line)
# Never writes under /repo or /verif.  The cache is recreated when absent.
set -u
REPO=${VERIF_REPO:-/repo}
S=${VERIF_SCRATCH:-/tmp/verif-dbus}
mkdir -p "$S"
exec 9>"$S/.lock"
flock 9
LOG="$S/build.log"
{
set -e
rsync -rlpc --delete --exclude=.git --exclude=_build "$REPO/" "$S/src/"
GUARD=""
if grep -rqs "DBUS_VERIF_HOOKS" "$S/src/dbus" "$S/src/bus" 2>/dev/null; then GUARD="-DDBUS_VERIF_HOOKS=1"; fi
if [ ! -f "$S/build/build.ninja" ]; then
  cmake -G Ninja -S "$S/src" -B "$S/build" -DCMAKE_BUILD_TYPE=Debug \
    -DCMAKE_C_FLAGS="-Wno-error -fsanitize=address,undefined -fno-sanitize-recover=undefined -fno-omit-frame-pointer -O1 -g $GUARD" \
    -DDBUS_BUILD_TESTS=ON -DDBUS_ENABLE_EMBEDDED_TESTS=ON -DDBUS_ENABLE_MODULAR_TESTS=ON \
    -DDBUS_ENABLE_STATS=ON -DDBUS_WITH_GLIB=OFF -DDBUS_BUILD_X11=OFF -DDBUS_ENABLE_DOXYGEN_DOCS=OFF \
    -DDBUS_ENABLE_XML_DOCS=OFF -DDBUS_ENABLE_VERBOSE_MODE=OFF
fi
ninja -C "$S/build" dbus-daemon dbus-daemon-launch-helper-for-tests dbus-testutils dbus-internal dbus-1
} >"$LOG" 2>&1
rc=$?
if [ $rc -ne 0 ]; then
  # a stale cmake cache can break after big tree changes: retry once from scratch
  rm -rf "$S/build"
  {
  set -e
  cmake -G Ninja -S "$S/src" -B "$S/build" -DCMAKE_BUILD_TYPE=Debug \
    -DCMAKE_C_FLAGS="-Wno-error -fsanitize=address,undefined -fno-sanitize-recover=undefined -fno-omit-frame-pointer -O1 -g $GUARD" \
    -DDBUS_BUILD_TESTS=ON -DDBUS_ENABLE_EMBEDDED_TESTS=ON -DDBUS_ENABLE_MODULAR_TESTS=ON \
    -DDBUS_ENABLE_STATS=ON -DDBUS_WITH_GLIB=OFF -DDBUS_BUILD_X11=OFF -DDBUS_ENABLE_DOXYGEN_DOCS=OFF \
    -DDBUS_ENABLE_XML_DOCS=OFF -DDBUS_ENABLE_VERBOSE_MODE=OFF
  ninja -C "$S/build" dbus-daemon dbus-daemon-launch-helper-for-tests dbus-testutils dbus-internal dbus-1
  } >>"$LOG" 2>&1
  rc=$?
fi
if [ $rc -ne 0 ]; then echo "BUILD FAILED, see $LOG" >&2; tail -30 "$LOG" >&2; exit 2; fi
# harnesses (C) linked against the static internal library of that build
HERE=$(cd "$(dirname "$0")/.." && pwd)
# (one harness directory per checkout of this framework: two versions sharing the build cache must not clobber each other's binaries)
HD="$S/harness-$(printf %s "$HERE" | md5sum | cut -c1-8)"
mkdir -p "$HD"
for h in "$HERE"/harness/c/*.c; do
  b=$(basename "$h" .c)
  if [ "$b" = svcstub ] || [ "$b" = argdump ]; then
    # stand-alone (started by the daemon as a service program): no sanitizer, no dbus
    if [ ! -x "$HD/$b" ] || [ "$h" -nt "$HD/$b" ]; then
      gcc -O1 -o "$HD/$b" "$h" >>"$LOG" 2>&1 || { echo "HARNESS BUILD FAILED ($b), see $LOG" >&2; exit 2; }
    fi
    continue
  fi
  if [ ! -x "$HD/$b" ] || [ "$h" -nt "$HD/$b" ] || [ "$S/build/lib/libdbus-internal.a" -nt "$HD/$b" ] || [ "$S/build/lib/libdbus-daemon-internal.a" -nt "$HD/$b" ]; then
    LIBS="$S/build/lib/libdbus-internal.a -L$S/build/lib -ldbus-1 -Wl,-rpath,$S/build/lib"
    case "$b" in connthr) LIBS="-L$S/build/lib -ldbus-1 -Wl,-rpath,$S/build/lib";; esac
    case "$b" in connraw) LIBS="$S/build/lib/libdbus-testutils.a $S/build/lib/libdbus-internal.a -L$S/build/lib -ldbus-1 -Wl,-rpath,$S/build/lib";; esac
    case "$b" in connpair) LIBS="$S/build/lib/libdbus-testutils.a $S/build/lib/libdbus-internal.a -L$S/build/lib -ldbus-1 -Wl,-rpath,$S/build/lib";; esac
    case "$b" in bus*) LIBS="$S/build/lib/libdbus-daemon-internal.a $S/build/lib/libdbus-testutils.a $S/build/lib/libdbus-internal.a -L$S/build/lib -ldbus-1 -Wl,-rpath,$S/build/lib -lexpat";; esac
    gcc -fsanitize=address,undefined -fno-sanitize-recover=undefined -fno-omit-frame-pointer -O1 -g -Wno-deprecated-declarations \
      -DDBUS_COMPILATION -DHAVE_CONFIG_H -I"$S/build" -I"$S/src" -I"$S/src/bus" -I"$S/src/test" \
      -o "$HD/$b" "$h" $LIBS -lpthread -lsystemd >>"$LOG" 2>&1 || \
    gcc -fsanitize=address,undefined -fno-sanitize-recover=undefined -fno-omit-frame-pointer -O1 -g -Wno-deprecated-declarations \
      -DDBUS_COMPILATION -DHAVE_CONFIG_H -I"$S/build" -I"$S/src" -I"$S/src/bus" -I"$S/src/test" \
      -o "$HD/$b" "$h" $LIBS -lpthread >>"$LOG" 2>&1 || { echo "HARNESS BUILD FAILED ($b), see $LOG" >&2; tail -30 "$LOG" >&2; exit 2; }
  fi
done
echo "$S/build"

#!/bin/bash
# Build an ASan+UBSan copy of /repo's *current working tree* into a scratch cache.
# Usage: build.sh            -> prints the build dir on stdout (last line)
# Never writes under /repo or /verif.  The cache is recreated when absent.
set -u
REPO=${VERIF_REPO:-/repo}
S=${VERIF_SCRATCH:-/tmp/verif-dbus}
mkdir -p "$S"
exec 9>"$S/.lock"
flock 9
LOG="$S/build.log"
{
set -e
rsync -rlpc --delete --exclude=.git --exclude=_build "$REPO/" "$S/src/"
GUARD=""
if grep -rqs "DBUS_VERIF_HOOKS" "$S/src/dbus" "$S/src/bus" 2>/dev/null; then GUARD="-DDBUS_VERIF_HOOKS=1"; fi
if [ ! -f "$S/build/build.ninja" ]; then
  cmake -G Ninja -S "$S/src" -B "$S/build" -DCMAKE_BUILD_TYPE=Debug \
    -DCMAKE_C_FLAGS="-Wno-error -fsanitize=address,undefined -fno-sanitize-recover=undefined -fno-omit-frame-pointer -O1 -g $GUARD" \
    -DDBUS_BUILD_TESTS=ON -DDBUS_ENABLE_EMBEDDED_TESTS=ON -DDBUS_ENABLE_MODULAR_TESTS=ON \
    -DDBUS_ENABLE_STATS=ON -DDBUS_WITH_GLIB=OFF -DDBUS_BUILD_X11=OFF -DDBUS_ENABLE_DOXYGEN_DOCS=OFF \
    -DDBUS_ENABLE_XML_DOCS=OFF -DDBUS_ENABLE_VERBOSE_MODE=OFF
fi
ninja -C "$S/build" dbus-daemon dbus-daemon-launch-helper-for-tests dbus-testutils dbus-internal dbus-1
} >"$LOG" 2>&1
rc=$?
if [ $rc -ne 0 ]; then
  # a stale cmake cache can break after big tree changes: retry once from scratch
  rm -rf "$S/build"
  {
  set -e
  cmake -G Ninja -S "$S/src" -B "$S/build" -DCMAKE_BUILD_TYPE=Debug \
    -DCMAKE_C_FLAGS="-Wno-error -fsanitize=address,undefined -fno-sanitize-recover=undefined -fno-omit-frame-pointer -O1 -g $GUARD" \
    -DDBUS_BUILD_TESTS=ON -DDBUS_ENABLE_EMBEDDED_TESTS=ON -DDBUS_ENABLE_MODULAR_TESTS=ON \
    -DDBUS_ENABLE_STATS=ON -DDBUS_WITH_GLIB=OFF -DDBUS_BUILD_X11=OFF -DDBUS_ENABLE_DOXYGEN_DOCS=OFF \
    -DDBUS_ENABLE_XML_DOCS=OFF -DDBUS_ENABLE_VERBOSE_MODE=OFF
  ninja -C "$S/build" dbus-daemon dbus-daemon-launch-helper-for-tests dbus-testutils dbus-internal dbus-1
  } >>"$LOG" 2>&1
  rc=$?
fi
if [ $rc -ne 0 ]; then echo "BUILD FAILED, see $LOG" >&2; tail -30 "$LOG" >&2; exit 2; fi
echo "$S/build"

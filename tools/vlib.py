"""Shared machinery of the checks: build, TLC invocation, bus-trace pipeline, known findings, evidence."""
import json
import os
import re
import shutil
import subprocess
import sys
import tempfile
import time
from concurrent.futures import ThreadPoolExecutor, ProcessPoolExecutor

ROOT = os.path.abspath(os.path.join(os.path.dirname(__file__), '..'))
SPEC = os.path.join(ROOT, 'spec')
PY = os.path.join(ROOT, 'harness', 'py')
sys.path.insert(0, PY)

NCPU = os.cpu_count() or 4


class Broken(Exception):
    """the machinery itself failed (exit 2), never reported as a violation"""


def build():
    env = dict(os.environ)
    p = subprocess.run([os.path.join(ROOT, 'tools', 'build.sh')], stdout=subprocess.PIPE, stderr=subprocess.PIPE,
                       env=env, text=True)
    if p.returncode != 0:
        raise Broken('build of the working tree failed:\n' + p.stderr[-3000:])
    return p.stdout.strip().splitlines()[-1]


def scratch():
    base = os.environ.get('VERIF_TMP', '/tmp')
    return tempfile.mkdtemp(prefix='verif-run-', dir=base)


def tlc(workdir, module, cfg, timeout, env=None, workers=1, extra=(), xmx='2g', cwd=SPEC):
    """returns (exit code, output text)"""
    e = dict(os.environ)
    e['VERIF_TLC_XMX'] = xmx
    e.update(env or {})
    cmd = [os.path.join(ROOT, 'tools', 'tlc.sh'), workdir, str(timeout), '-workers', str(workers),
           '-config', cfg] + list(extra) + [module]
    p = subprocess.run(cmd, stdout=subprocess.PIPE, stderr=subprocess.STDOUT, env=e, cwd=cwd, text=True)
    return p.returncode, p.stdout


def tlc_stats(out):
    m = re.search(r'(\d+) states generated, (\d+) distinct states found', out)
    if not m:
        return None
    return {'generated': int(m.group(1)), 'distinct': int(m.group(2))}


def model_check(module, cfg, timeout=600, workers=None, xmx='8g', coverage=False):
    """BFS of a closed model; returns dict(states, transitions, ok, out, violated)"""
    wd = scratch()
    try:
        extra = ['-coverage', '1'] if coverage else []
        rc, out = tlc(wd, module, cfg, timeout, workers=workers or min(NCPU, 8), extra=extra, xmx=xmx)
    finally:
        shutil.rmtree(wd, ignore_errors=True)
    st = tlc_stats(out)
    if rc == 124:
        raise Broken('TLC timeout on %s/%s' % (module, cfg))
    if st is None:
        raise Broken('TLC failed on %s/%s:\n%s' % (module, cfg, out[-3000:]))
    violated = None
    m = re.search(r'Error: (Invariant|Action property|Temporal propert\w+) (\S+) (is|was) violated', out)
    if m:
        violated = m.group(2)
    elif rc != 0:
        raise Broken('TLC exit %d on %s/%s:\n%s' % (rc, module, cfg, out[-3000:]))
    return {'states': st['distinct'], 'transitions': st['generated'], 'ok': violated is None, 'violated': violated,
            'out': out}


# ---------------------------------------------------------------------------------------------------------------
# bus-trace pipeline

def _exec_chunk(args):
    build_dir, scns, path = args
    import busdrv
    n = []
    with open(path, 'w') as f:
        for scn in scns:
            try:
                lines = busdrv.run_scenario(build_dir, scn)
            except Exception as e:  # the driver itself failed: a broken check, not a verdict
                return ('broken', '%s: %r' % (type(e).__name__, e))
            busdrv.dump(lines, f)
            n.append(len(lines))
    return ('ok', n)


DEVS_USED = set()


def _content_file(tag, text):
    """a small read-only input file named by its content (shared by all runs; nothing accumulates)"""
    import hashlib
    d = os.path.join(os.environ.get('VERIF_TMP', '/tmp'), 'verif-inputs')
    os.makedirs(d, exist_ok=True)
    p = os.path.join(d, '%s-%s.ndjson' % (tag, hashlib.md5(text.encode()).hexdigest()[:12]))
    if not os.path.exists(p):
        t = '%s.%d' % (p, os.getpid())
        with open(t, 'w') as f:
            f.write(text)
        os.rename(t, p)
    return p


def devs_file():
    """file listing the known-defect deviations the trace specs may use (open findings only)"""
    text = ''
    for k in load_known():
        if k.get('status') == 'open' and k.get('deviation') and not os.environ.get('VERIF_NO_DEVS'):
            text += json.dumps({'dev': k['deviation']}) + '\n'
    return _content_file('devs', text)


def empty_devs_file():
    return _content_file('nodevs', '')



class TlcEvalError(Exception):
    pass


def validate_trace_lenient(path, wd, **kw):
    """validate_trace, with a recording the specification cannot even evaluate counted as rejected at its start"""
    try:
        return validate_trace(path, wd, **kw)
    except TlcEvalError:
        return (1, 0)


def validate_trace(path, wd, timeout=600, module='BusTrace.tla', cfg='BusTrace.cfg'):
    """returns None if accepted, else (line, ops applied).  First without any known-defect deviation; only a
    trace the plain specification rejects is tried again with the deviations of the open known findings."""
    r = _validate_trace(path, wd, timeout, module, cfg, empty_devs_file())
    if r is None:
        return None
    return _validate_trace(path, wd, timeout, module, cfg, devs_file())


def _validate_trace(path, wd, timeout, module, cfg, devs):
    rc, out = tlc(wd, module, cfg, timeout, env={'TRACE': path, 'VERIF_DEVS': devs}, workers=1)
    for m in re.finditer(r'"DEVS_USED", \{([^}]*)\}', out):
        for d in re.findall(r'"([^"]+)"', m.group(1)):
            DEVS_USED.add(d)
    if rc == 124:
        raise Broken('TLC timeout validating %s' % path)
    m = re.search(r'"REJECTED_AT", (\d+), (\d+)', out)
    if m:
        return int(m.group(1)), int(m.group(2))
    if 'Model checking completed. No error has been found' in out and rc == 0:
        return None
    if 'The error occurred when TLC was evaluating' in out or 'Attempted to ' in out:
        # the specification could not even be evaluated on this recording (a shape of observation it does not
        # provide for): that is a rejection of the recording, not a failure of the machinery -- located by the caller
        raise TlcEvalError(out[-3000:])
    raise Broken('trace validation failed to run on %s:\n%s' % (path, out[-4000:]))


def run_bus_scenarios(build_dir, scns, module='BusTrace.tla', cfg='BusTrace.cfg', chunk=8, jobs=None, keep=None):
    """execute scenarios against the real daemon and validate the traces.
    returns dict(validated=int, rejected=[{'scn':..., 'trace':[...], 'line':..}], unconfirmed=int)"""
    jobs = jobs or max(2, NCPU - 2)
    wd = scratch()
    res = {'validated': 0, 'rejected': [], 'unconfirmed': 0, 'lines': 0, 'tlc_states': 0}
    try:
        chunks = [scns[i:i + chunk] for i in range(0, len(scns), chunk)]
        paths = [os.path.join(wd, 'c%04d.ndjson' % i) for i in range(len(chunks))]
        with ProcessPoolExecutor(max_workers=jobs) as ex:
            outs = list(ex.map(_exec_chunk, [(build_dir, c, p) for c, p in zip(chunks, paths)]))
        for o in outs:
            if o[0] != 'ok':
                raise Broken('driver failure: ' + o[1])

        def val(i):
            return _validate_chunk(build_dir, chunks[i], paths[i], outs[i][1], os.path.join(wd, 't%04d' % i),
                                   module, cfg)
        with ThreadPoolExecutor(max_workers=jobs) as ex:
            for r in ex.map(val, range(len(chunks))):
                res['validated'] += r['validated']
                res['rejected'] += r['rejected']
                res['unconfirmed'] += r['unconfirmed']
                res['lines'] += r['lines']
        if keep:
            shutil.copy(paths[0], keep)
    finally:
        shutil.rmtree(wd, ignore_errors=True)
    return res


def _validate_chunk(build_dir, scns, path, nlines, wd, module, cfg):
    import busdrv
    r = {'validated': 0, 'rejected': [], 'unconfirmed': 0, 'lines': sum(nlines)}
    all_lines = open(path).read().splitlines()
    start = 0          # index of first scenario still to validate
    while start < len(scns):
        off = sum(nlines[:start])
        sub = path + '.sub'
        with open(sub, 'w') as f:
            f.write('\n'.join(all_lines[off:]) + '\n')
        try:
            rej = validate_trace(sub, wd, module=module, cfg=cfg)
        except TlcEvalError:
            # find the scenario the specification chokes on: validate the remaining ones one by one
            rej = None
            for k2 in range(start, len(scns)):
                one = path + '.ev'
                with open(one, 'w') as f:
                    f.write('\n'.join(all_lines[sum(nlines[:k2]):sum(nlines[:k2 + 1])]) + '\n')
                try:
                    r1 = validate_trace(one, wd, module=module, cfg=cfg)
                except TlcEvalError:
                    r1 = (1, 0)
                if r1 is not None:
                    rej = (sum(nlines[start:k2]) + r1[0], r1[1])
                    break
            if rej is None:
                r['validated'] += len(scns) - start
                break
        if rej is None:
            r['validated'] += len(scns) - start
            break
        line = rej[0]
        # which scenario holds that line
        acc = 0
        k = start
        while k < len(scns) and acc + nlines[k] < line:
            acc += nlines[k]
            k += 1
        if k >= len(scns):
            k = len(scns) - 1
        r['validated'] += k - start
        # confirm: re-execute that scenario alone and validate again
        one = path + '.one'
        lines2 = busdrv.run_scenario(build_dir, scns[k])
        with open(one, 'w') as f:
            busdrv.dump(lines2, f)
        try:
            rej2 = validate_trace(one, wd, module=module, cfg=cfg)
        except TlcEvalError:
            rej2 = (1, 0)
        except Broken as e:
            # a SINGLE history (already rejected once inside its chunk) that TLC cannot explain within ten minutes
            # either: counted as not explained -- a behaviour of the specification is found in seconds
            if 'TLC timeout' not in str(e):
                raise
            rej2 = (line - acc, 0)
        if rej2 is None:
            r['unconfirmed'] += 1
            # keep the trace that was rejected once, for diagnosis (timing-dependent recordings)
            try:
                d = os.path.join(os.environ.get('VERIF_TMP', '/tmp'), 'verif-unconfirmed')
                os.makedirs(d, exist_ok=True)
                with open(os.path.join(d, '%d-%d.ndjson' % (os.getpid(), k)), 'w') as f:
                    f.write('\n'.join(all_lines[sum(nlines[:k]):sum(nlines[:k + 1])]) + '\n')
                    f.write(json.dumps({'e': 'Note', 'rejected_line_in_scenario': line - acc}) + '\n')
            except OSError:
                pass
        else:
            r['rejected'].append({'scn': scns[k], 'trace': lines2, 'line': rej2[0], 'opn': rej2[1],
                                  'first_trace_line': line - acc})
        start = k + 1
    return r


# ---------------------------------------------------------------------------------------------------------------
# known findings, evidence, verdict

def load_known():
    p = os.path.join(ROOT, 'known-findings.json')
    if not os.path.exists(p):
        return []
    return json.load(open(p)).get('findings', [])


def write_evidence(pid, tier, seed, level, coverage, wall, violations, assumptions):
    # (trials on a changed copy of the repository -- tools/try_mutant.sh -- keep their evidence out of /verif/evidence)
    evdir = os.environ.get('VERIF_EVIDENCE', os.path.join(ROOT, 'evidence'))
    os.makedirs(evdir, exist_ok=True)
    ev = {'property_id': pid, 'tier': tier, 'seed': seed, 'level': level, 'coverage': coverage,
          'assumptions': assumptions, 'wall_s': round(wall, 1), 'violations': violations}
    with open(os.path.join(evdir, pid + '.json'), 'w') as f:
        json.dump(ev, f, indent=1, default=str)


def save_replay(pid, seed, n, payload):
    d = os.path.join(os.environ.get('VERIF_REPLAYS', os.path.join(ROOT, 'replays')), pid)
    os.makedirs(d, exist_ok=True)
    p = os.path.join(d, '%s-%d.json' % (seed, n))
    with open(p, 'w') as f:
        json.dump(payload, f, default=str)
    return p


# ---------------------------------------------------------------------------------------------------------------
# table validation of pure operators (Cases.tla)

def harness_path(build_dir, name):
    import hashlib
    return os.path.join(os.path.dirname(build_dir), 'harness-' + hashlib.md5(ROOT.encode()).hexdigest()[:8], name)


def run_harness(build_dir, mode, lines, timeout=600):
    """feed lines to wirecase <mode>; returns list of parsed JSON outputs (None for a line the harness died on)"""
    env = dict(os.environ)
    env['ASAN_OPTIONS'] = 'detect_leaks=0:abort_on_error=0'
    env['UBSAN_OPTIONS'] = 'print_stacktrace=1:halt_on_error=1'
    env['DBUS_FATAL_WARNINGS'] = '0'
    out = []
    i = 0
    crashes = []
    while i < len(lines):
        p = subprocess.run([harness_path(build_dir, 'wirecase'), mode], input='\n'.join(lines[i:]) + '\n',
                           stdout=subprocess.PIPE, stderr=subprocess.PIPE, env=env, text=True, timeout=timeout)
        got, garbled = [], None
        for x in p.stdout.splitlines():
            if not x.startswith('{'):
                continue
            try:
                got.append(json.loads(x))
            except ValueError:
                garbled = x          # the library handed back something the harness could not even print (e.g. garbage strings)
                break
        out += got
        i += len(got)
        if garbled is not None and i < len(lines):
            crashes.append((i, 'unparsable harness output (garbled values read back): ' + garbled[:600]))
            out.append(None)
            i += 1
            continue
        if i < len(lines) and p.returncode != 0:
            # the harness died on lines[i]: sanitizer report / assertion / abort
            crashes.append((i, p.stderr[-3000:]))
            out.append(None)
            i += 1
        elif i < len(lines):
            raise Broken('harness produced %d outputs for %d inputs: %s' % (len(got), len(lines) - i, p.stderr[-500:]))
    return out, crashes


def check_cases(cases, shard=4000, jobs=None, timeout=900, devnames=()):
    """cases: list of dicts (NDJSON records for Cases.tla). returns list of indices TLC flags as bad.
    devnames: known-defect deviations that may explain a case; a case that is bad under the plain specification but
    accepted with the (open) deviations enabled is not returned, and the deviation names are noted in DEVS_USED."""
    bad = _check_cases(cases, shard, jobs, timeout, empty_devs_file())
    if bad and devnames:
        openset = {k.get('deviation') for k in load_known() if k.get('status') == 'open'}
        use = [d for d in devnames if d in openset and not os.environ.get('VERIF_NO_DEVS')]
        if use:
            sub = [cases[i] for i in bad]
            still = _check_cases(sub, shard, jobs, timeout, devs_file())
            if len(still) < len(sub):
                DEVS_USED.update(use)
            bad = [bad[j] for j in still]
    return bad


def _check_cases(cases, shard, jobs, timeout, devs):
    jobs = jobs or max(2, NCPU - 2)
    wd = scratch()
    bad = []
    try:
        shards = [cases[i:i + shard] for i in range(0, len(cases), shard)]

        def evaluate(tag, cs):
            """indices (within cs) of the cases TLC flags; a case on which the specification cannot even be evaluated
            (unexpected shape of what the library handed back) is flagged too -- found by halving"""
            path = os.path.join(wd, 's%s.ndjson' % tag)
            with open(path, 'w') as f:
                for c in cs:
                    f.write(json.dumps(c, separators=(',', ':')) + '\n')
            rc, out = tlc(os.path.join(wd, 't%s' % tag), 'Cases.tla', 'Cases.cfg', timeout, env={'CASES': path, 'VERIF_DEVS': devs}, workers=1,
                          xmx='3g')
            m = re.search(r'"CASES", (\d+)', out)
            if m and int(m.group(1)) == len(cs) and 'No error has been found' in out:
                return [int(x) - 1 for x in re.findall(r'"BADCASE", (\d+)', out)]
            if ('The error occurred when TLC was evaluating' in out or 'Attempted to ' in out) and len(tag) < 24:
                if len(cs) == 1:
                    return [0]
                h = len(cs) // 2
                return evaluate(tag + 'a', cs[:h]) + [h + i for i in evaluate(tag + 'b', cs[h:])]
            raise Broken('Cases.tla failed on shard %s:\n%s' % (tag, out[-3000:]))

        def one(k):
            return [k * shard + i for i in evaluate('%04d' % k, shards[k])]
        with ThreadPoolExecutor(max_workers=jobs) as ex:
            for r in ex.map(one, range(len(shards))):
                bad += r
    finally:
        shutil.rmtree(wd, ignore_errors=True)
    return bad

#!/usr/bin/env python3
"""Entry point of every MANIFEST command:  check.py <ID> --tier quick|thorough [--replay file]
                                           check.py --setup
exit 0: property held on everything explored (KNOWN-FINDING lines possible)
exit 1: violation, with a line  VIOLATION property=<id> replay=<path>
exit 2: the machinery itself failed (build, TLC, driver)"""
import argparse
import importlib
import json
import os
import subprocess
import sys
import time
import traceback

sys.path.insert(0, os.path.dirname(os.path.abspath(__file__)))
import vlib
from vlib import Broken, ROOT

sys.path.insert(0, os.path.join(ROOT, 'checks'))

IDS = ['C%02d' % i for i in range(1, 21)]


def setup():
    """parse every TLA+ module; compile nothing persistent"""
    env = dict(os.environ)
    env['JAVA_TOOL_OPTIONS'] = '-DTLA-Library=%s/spec/lib:%s/spec' % (ROOT, ROOT)
    bad = 0
    for d in ('spec/lib', 'spec'):
        for fn in sorted(os.listdir(os.path.join(ROOT, d))):
            if not fn.endswith('.tla'):
                continue
            p = subprocess.run(['tla-sany', fn], cwd=os.path.join(ROOT, d), env=env, stdout=subprocess.PIPE,
                               stderr=subprocess.STDOUT, text=True)
            if p.returncode != 0 or '*** Errors' in p.stdout or 'Fatal' in p.stdout:
                print('SANY failed on', fn)
                print(p.stdout[-2000:])
                bad += 1
    python_ok = subprocess.run([sys.executable, '-c', 'import json'], cwd=ROOT).returncode == 0
    print('setup: %s' % ('ok' if not bad and python_ok else 'FAILED'))
    return 0 if not bad and python_ok else 2


def main():
    ap = argparse.ArgumentParser()
    ap.add_argument('id', nargs='?')
    ap.add_argument('--tier', default=os.environ.get('VERIF_TIER', 'quick'))
    ap.add_argument('--replay')
    ap.add_argument('--setup', action='store_true')
    a = ap.parse_args()
    if a.setup:
        return setup()
    pid = a.id
    if pid not in IDS:
        print('unknown property', pid)
        return 2
    seed = int(os.environ.get('VERIF_SEED', '1'))
    t0 = time.time()
    try:
        mod = importlib.import_module(pid.lower())
        ctx = vlib_ctx(pid, a.tier, seed)
        if a.replay:
            res = mod.replay(ctx, a.replay)
        else:
            res = mod.run(ctx)
    except Broken as e:
        print('BROKEN property=%s: %s' % (pid, e))
        return 2
    except Exception:
        traceback.print_exc()
        print('BROKEN property=%s: exception in the check' % pid)
        return 2
    wall = time.time() - t0
    # verdict: violations not covered by an open known finding
    known = [k for k in vlib.load_known() if k.get('property') == pid and k.get('status') == 'open']
    hit = {}
    new = []
    for v in res.get('violations', []):
        kf = None
        for k in known:
            if k.get('signature') == v.get('signature'):
                kf = k
                break
        if kf is not None:
            hit.setdefault(kf['id'], kf)
        else:
            new.append(v)
    for k in vlib.load_known():
        if k.get('property') == pid and k.get('status') == 'open' and k.get('deviation') in vlib.DEVS_USED:
            hit.setdefault(k['id'], k)
    for k in hit.values():
        print('KNOWN-FINDING: property=%s %s' % (pid, k['text']))
    cov = res['coverage']
    cov['known_findings_hit'] = sorted(hit)
    if not a.replay:
        vlib.write_evidence(pid, a.tier, seed, res.get('level', 'model_checking'), cov, wall, len(new),
                            res.get('assumptions', []))
    for i, v in enumerate(new):
        path = vlib.save_replay(pid, seed, i, v)
        print('VIOLATION property=%s replay=%s' % (pid, path))
        print('  signature: %s' % v.get('signature'))
        if i >= 9:
            print('  ... %d more' % (len(new) - 10))
            break
    print('%s %s: %s in %.0fs  %s' % (pid, a.tier, 'VIOLATED' if new else 'ok', wall,
                                     json.dumps({k: v for k, v in cov.items() if isinstance(v, (int, float, bool))})))
    return 1 if new else 0


class vlib_ctx:
    def __init__(self, pid, tier, seed):
        self.pid, self.tier, self.seed = pid, tier, seed
        self.quick = tier != 'thorough'
        self._build = None

    @property
    def build(self):
        if self._build is None:
            self._build = vlib.build()
        return self._build


if __name__ == '__main__':
    sys.exit(main())

#!/usr/bin/env python3
"""showline.py trace.ndjson N : human-readable view of trace line N;  with --mismatch: decode MISMATCH prints from stdin"""
import json, sys
def t(b): return bytes(b).decode('latin-1') if isinstance(b, list) and all(isinstance(x, int) for x in b) else b
def hm(m):
    a = []
    for x in m.get('args', []):
        v = x['v']
        a.append(t(v) if isinstance(v, list) and v and isinstance(v[0], int) else ([t(y) for y in v] if isinstance(v, list) else v))
    return 'ty=%s %s>%s ser=%s rs=%s %s %s.%s err=%s sig=%s %r fl=%s' % (m['ty'], t(m['snd']), t(m['dst']), m['ser'], m['rs'], t(m['path']), t(m['ifc']), t(m['mem']), t(m['err']), t(m['sig']), a, m.get('fl'))
if sys.argv[1] == '--mismatch':
    import re
    for line in sys.stdin:
        m = re.search(r'<<"MISMATCH", "(.*)">>', line)
        if not m: continue
        d = json.loads(m.group(1).encode().decode('unicode_escape'))
        print('MISMATCH at line', d['l'], 'pos', d['pos'], 'cnt', d['cnt'], 'bad slots', d.get('bad'))
        for e in d['out']:
            print('   expected to', e['to'], ':', hm(e['m']), 'cmp=', e['m']['cmp'])
    sys.exit(0)
lines = open(sys.argv[1]).read().splitlines()
n = int(sys.argv[2])
ln = json.loads(lines[n - 1])
if ln['e'] != 'Round':
    print(ln); sys.exit(0)
for i, ops in enumerate(ln['ops']):
    for o in ops:
        print('op  slot', i + 1, o['k'], o.get('ser'), o.get('_', ''), {k: (t(v) if isinstance(v, list) else v) for k, v in o.items() if k in ('dst', 'rs', 'fl', 'q', 'f', 'got', 'ty')})
print('sync', ln['sync'], 'eof', ln['eof'], 'stall', ln.get('stall'))
for i, ob in enumerate(ln['obs']):
    for m in ob:
        print('obs slot', i + 1, hm(m))

#!/bin/bash
# run every thorough check once, sequentially; one summary line per check
cd "$(dirname "$0")/.."
# (optional arguments: the checks to run, in that order)
for c in ${@:-C08 C20 C12 C02 C16 C01 C17 C11 C07 C03 C05 C04 C06 C09 C10 C13 C14 C15 C18 C19}; do
  s=$(date +%s)
  out=$(python3 tools/check.py $c --tier thorough 2>&1)
  rc=$?
  echo "$c rc=$rc $(( $(date +%s) - s ))s $(echo "$out" | grep -c '^VIOLATION') violations :: $(echo "$out" | tail -1 | cut -c1-260)"
done

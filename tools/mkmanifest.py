#!/usr/bin/env python3
"""Regenerate MANIFEST.json from the table below (kept in one place so it is always schema-valid)."""
import json, os
ROOT = os.path.abspath(os.path.join(os.path.dirname(__file__), '..'))
BUS_NOTE = ('Trusted: TLC + CommunityModules Json; the python raw-socket driver as recorder; ASan/UBSan build of the working tree. '
            'Conformance is sampled (generated scenarios), the closed model is exhaustive for its small constants only.')
CHECKS = {
 'C03': dict(tech='TLA+ spec Bus.tla: TLC BFS of BusMC (C03.cfg: SenderIsOrigin, UniqueNeverReused ...) + TLC trace validation of real dbus-daemon runs with forged headers',
             text='Every message the model stages carries a ghost origin; TLC checks on the closed model that sender = origin and unique names are never reused, and each recorded round of the '
                  'real daemon (forged SENDER, unknown fields 11..255, CONTAINER_INSTANCE, Hello histories) must equal what the model stages: sender bytes, absence of unknown fields, freshness of every name.',
             ref='3/C03'),
 'C05': dict(tech='TLA+ spec Bus.tla: TLC BFS of BusMC (C05.cfg: UnicastToOwnerOnly, AtMostOneCopy, ErrorXorDelivery) + TLC trace validation with TLC choosing the interleaving of concurrent writers',
             text='Routing of a message with a destination is one TLA+ action; acceptance of a recorded round means some serial order of the concurrent clients explains every inbox exactly '
                  '(once, to the owner at that moment, in per-sender order, or exactly one error with the serial).', ref='3/C05'),
 'C07': dict(tech='TLA+ spec Bus.tla + MatchOps.tla (rule parser and matcher over bytes): TLC BFS of BusMC (C07.cfg: BroadcastOnlyToMatching) + TLC trace validation of AddMatch/RemoveMatch/signal histories',
             text='The match-rule grammar, equality and matching semantics are TLA+ operators evaluated by TLC on the very bytes sent to the daemon; every delivery or non-delivery of every '
                  'broadcast in the recorded rounds must be what the operators say; the daemon runs under ASan/UBSan so memory errors end the trace.', ref='3/C07'),
 'C09': dict(tech='TLA+ spec Bus.tla (pending-reply table, Gate, ExpirePending) + PolicyOps.tla: TLC BFS (C09.cfg: SlotOnlyForDeliveredCall, NoReplyOnlyOnExpiry) + trace validation under a requested-reply-only policy with finite reply_timeout',
             text='Pending replies are explicit model state; replies pass the policy operators only when a slot exists; expiry is a silent action with one-sided timing rules (may-expire / must-have-expired windows measured by the driver).',
             ref='3/C09'),
 'C13': dict(tech='TLA+ spec Bus.tla with limits as configuration: TLC BFS (C13.cfg: *WithinLimit invariants, RefusalChangesNothing) + trace validation with all limits 1-3 and three uids',
             text='Limits are constants of the model; each guarded action has a LimitsExceeded branch that leaves the state unchanged; recorded rounds of the daemon configured with tiny limits must follow exactly.',
             ref='3/C13'),
 'C04': dict(tech='TLA+ spec Bus.tla: TLC BFS of BusMC (C04.cfg) + TLC trace validation of real dbus-daemon runs (BusTrace)',
             text='Name-ownership decision table, signals and queries are one TLA+ state machine; TLC proves the invariants and action properties on all '
                  'interleavings of 3 connections x 1-2 names x 8 flag values, and every recorded round of the real daemon (random concurrent histories + '
                  'flag-revealing epilogue) must be a behaviour of that machine, so any reply code, queue order, signal or query that deviates is caught.',
             ref='3/C04'),
}
NOT_YET = 'check not built yet in this round (planned, see DESIGN.md section 3)'
def main():
    ids = ['C%02d' % i for i in range(1, 21)]
    checks = []
    for i in ids:
        if i not in CHECKS: continue
        c = CHECKS[i]
        checks.append({'property_id': i,
                       'quick_cmd': 'python3 tools/check.py %s --tier quick' % i,
                       'thorough_cmd': 'python3 tools/check.py %s --tier thorough' % i,
                       'evidence_file': 'evidence/%s.json' % i,
                       'replay_cmd_template': 'python3 tools/check.py %s --replay {path}' % i,
                       'engine': 'tlc',
                       'level_claimed': {'category': c.get('level', 'model_checking'), 'text': c['text'], 'design_ref': c['ref']},
                       'level_note': c.get('note', BUS_NOTE),
                       'technique': c['tech']})
    m = {'version': 1,
         'setup_cmd': 'python3 tools/check.py --setup',
         'hooks': {'guard': 'DBUS_VERIF_HOOKS', 'enable': 'tools/build.sh passes -DDBUS_VERIF_HOOKS=1 in CMAKE_C_FLAGS when the tree contains the guard (no hook exists so far)',
                   'baseline_off_cmd': 'cmake -G Ninja -S /repo -B /repo/_build -DCMAKE_BUILD_TYPE=RelWithDebInfo -DCMAKE_C_FLAGS=-Wno-error -DDBUS_ENABLE_EMBEDDED_TESTS=ON -DDBUS_ENABLE_MODULAR_TESTS=ON && cmake --build /repo/_build && ctest --test-dir /repo/_build -j8 --timeout 900',
                   'source_commits': [], 'add_only': True},
         'engines': [{'name': 'tlc', 'path': 'tools/tlc.sh', 'serves_properties': [c['property_id'] for c in checks],
                      'kind_free_text': 'TLC 1.8 model checker: BFS of closed TLA+ models and trace validation (POSTCONDITION acceptance) of NDJSON traces recorded from the real code'}],
         'checks': checks,
         'notes': 'All checks: python3 tools/check.py <ID> --tier quick|thorough. Specs in spec/, drivers in harness/, per-property glue in checks/.',
         'not_applicable': [{'property_id': i, 'reason': NOT_YET} for i in ids if i not in CHECKS]}
    json.dump(m, open(os.path.join(ROOT, 'MANIFEST.json'), 'w'), indent=1)
main()

import sys, random, json, time, importlib
sys.path.insert(0,'/verif/harness/py'); sys.path.insert(0,'/verif/checks'); sys.path.insert(0,'/verif/tools')
import busdrv
mod = importlib.import_module(sys.argv[1])
build, out, seed, n = sys.argv[2], sys.argv[3], int(sys.argv[4]), int(sys.argv[5])
rng=random.Random(seed)
with open(out,'w') as f:
    for i in range(n):
        scn=mod.gen(rng, i)
        lines=busdrv.run_scenario(build, scn)
        busdrv.dump(lines,f)

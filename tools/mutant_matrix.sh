#!/bin/bash
# mutant_matrix.sh [names...] : for every seeded change (default: all) run the quick checks of the properties it breaks
# (plus any extra ids listed in meta.json "also") and record the outcome in seeded/<name>/meta.json (detected_by).
# Works on a copy of /repo (see try_mutant.sh); runs serially only because the trials share one build cache.
cd /verif
names=("$@"); [ ${#names[@]} -eq 0 ] && names=($(ls seeded))
for n in "${names[@]}"; do
  ids=$(python3 -c "import json;d=json.load(open('seeded/$n/meta.json'));print(' '.join(dict.fromkeys(d.get('breaks',[])+d.get('also',[]))))")
  out=$(tools/try_mutant.sh $n $ids 2>&1)
  echo "$out"
  python3 - "$n" <<PY
import json,sys,re
n=sys.argv[1]
p='seeded/%s/meta.json'%n; d=json.load(open(p)); det=d.get('detected_by') or {}
det={k:v for k,v in det.items() if re.fullmatch(r'C\d\d',k)}
for ln in '''$out'''.splitlines():
    m=re.match(r'(\S+) (C\d\d) exit=(\d+) (\d+) violations; *(.*)',ln)
    if m and m.group(1)==n:
        sig=re.sub(r'\s+',' ',m.group(5)).strip()
        det[m.group(2)]=('quick: %s violations (%s)'%(m.group(4),sig[:160])) if m.group(3)=='1' else ('quick: not detected' if m.group(3)=='0' else 'quick: check broken (exit %s)'%m.group(3))
d['detected_by']=det
json.dump(d,open(p,'w'),indent=1)
PY
done


#!/bin/bash
# keep_mutant.sh <worktree> <seeded-name> : archive a confirmed seeded change under /verif/seeded and drop the worktree
WT=$1; NAME=$2
D=/verif/seeded/$NAME
mkdir -p "$D"
cp "$WT"/MUTANT/* "$D"/ 2>/dev/null
cp "$WT/confirm.log" "$D/confirm.log"
git -C /repo worktree remove --force "$WT"
rm -rf "/tmp/wt-scratch-$(basename $WT)"
ls "$D"

#!/bin/bash
# tlc.sh <workdir-for-metadata> <timeout-seconds> [tlc args...]   (run from the directory holding the .tla files)
# Adds spec/lib to the module search path through -DTLA-Library.
MD=$1; TO=$2; shift 2
HERE=$(cd "$(dirname "$0")/.." && pwd)
mkdir -p "$MD/jtmp"
# (java.io.tmpdir: TLC leaves an empty tlc-<n> directory behind per run; keep those inside the work directory)
export JAVA_TOOL_OPTIONS="-Xss512m -Xmx${VERIF_TLC_XMX:-6g} -Djava.io.tmpdir=$MD/jtmp -DTLA-Library=$HERE/spec/lib:$HERE/spec ${VERIF_TLC_JOPTS:-}"
export VERIF_DEBUG=${VERIF_DEBUG:-0}
exec timeout "$TO" tlc -noGenerateSpecTE -metadir "$MD/states" "$@"

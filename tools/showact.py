#!/usr/bin/env python3
"""showact.py trace.ndjson FROM TO : compact view of activation-related rounds"""
import json, sys
L = open(sys.argv[1]).read().splitlines()
for i in range(int(sys.argv[2]) - 1, int(sys.argv[3])):
    d = json.loads(L[i])
    if d['e'] != 'Round':
        print(i + 1, {k: v for k, v in d.items() if k != 'cfg'}); continue
    st = {bytes(x['n']).decode()[12:]: x['k'] for x in d['starts']}
    ops = [(s + 1, [o['k'] + ((':' + o.get('_', '') + ' #%s fl%s' % (o.get('ser'), o.get('fl'))) if o['k'] in ('send', 'startsvc', 'req', 'rel') else (':%s %s' % (bytes(o['n']).decode()[12:], o['status']) if o['k']=='svc_exit' else '')) for o in ops]) for s, ops in enumerate(d['ops']) if ops]
    print(i + 1, st, 'may', d['actMay'], 'must', d['actMust'], 'eof', d['eof'], 'stall', d['stall'])
    for o in ops: print('     ops', o)
    for s, ob in enumerate(d['obs']):
        for m in ob:
            if m['err'] or (m['snd'] and bytes(m['snd']) != b'org.freedesktop.DBus') or (m['ty'] == 2 and m['args'] and m['args'][0]['t'] == 117):
                print('     obs', s + 1, 'ty', m['ty'], bytes(m['snd']).decode(), '>', bytes(m['dst']).decode(), 'ser', m['ser'], 'rs', m['rs'], bytes(m['err']).decode()[27:], bytes(m['mem']).decode(), [a['v'] for a in m['args'] if a['t'] == 117])

#!/bin/bash
# try_mutant.sh <seeded-name> <check id>... : apply the seeded change to /repo, run the quick checks, undo.
# Uses its own build cache so that it does not disturb other runs.  Output: /tmp/mut_<name>_<id>.log
NAME=$1; shift
export VERIF_SCRATCH=/tmp/verif-mut
export VERIF_REPLAYS=/tmp/verif-mut-replays
cd /verif
git -C /repo apply /verif/seeded/$NAME/patch.diff || { echo "patch does not apply"; exit 2; }
for id in "$@"; do
  python3 tools/check.py $id --tier quick > /tmp/mut_${NAME}_$id.log 2>&1
  echo "$NAME $id exit=$? $(grep -c '^VIOLATION' /tmp/mut_${NAME}_$id.log) violations; $(grep 'signature' /tmp/mut_${NAME}_$id.log | sort | uniq -c | head -3 | tr '\n' ' ')"
done
git -C /repo checkout -- .

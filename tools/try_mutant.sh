#!/bin/bash
# try_mutant.sh <seeded-name> <check id>... : run the quick checks on a copy of /repo's working tree with the seeded
# change applied.  /repo itself is not touched (VERIF_REPO points the build at the copy), so this can run while other
# checks use /repo; it has its own build cache.  Output: /tmp/mut_<name>_<id>.log
NAME=$1; shift
# (MUT_TAG: a second series of trials next to the first one needs its own copy and build cache)
export VERIF_SCRATCH=/tmp/verif-mut${MUT_TAG}
export VERIF_REPLAYS=/tmp/verif-mut${MUT_TAG}-replays
export VERIF_REPO=/tmp/verif-mut${MUT_TAG}-repo
export VERIF_EVIDENCE=/tmp/verif-mut${MUT_TAG}-evidence
cd /verif
mkdir -p $VERIF_REPO
rsync -a --delete --exclude .git --exclude _build /repo/ $VERIF_REPO/
( cd $VERIF_REPO && patch -p1 -s < /verif/seeded/$NAME/patch.diff ) || { echo "patch does not apply"; exit 2; }
for id in "$@"; do
  python3 tools/check.py $id --tier quick > /tmp/mut${MUT_TAG}_${NAME}_$id.log 2>&1
  echo "$NAME $id exit=$? $(grep -c '^VIOLATION' /tmp/mut${MUT_TAG}_${NAME}_$id.log) violations; $(grep 'signature' /tmp/mut${MUT_TAG}_${NAME}_$id.log | sort | uniq -c | head -3 | tr '\n' ' ')"
done

SPECIFICATION Spec
CONSTANTS Allowed = {"EXTERNAL", "DBUS_COOKIE_SHA1", "ANONYMOUS"}
  MaxLen = 7
INVARIANTS AuthenticatedOnlyViaPermittedMech IdentityIsMechIdentity RejectClearsIdentity FailuresBounded
PROPERTY NoAuthWithoutOk RejectionsOnlyAddUp
CHECK_DEADLOCK FALSE

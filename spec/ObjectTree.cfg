SPECIFICATION Spec
CONSTANTS Paths <- MCPaths
  Ids = {1,2}
INVARIANTS ExactFirstThenNearestFallback RegisterOccupiedIsNoop ChildrenReflectTree
CHECK_DEADLOCK FALSE

INIT Init
NEXT Next

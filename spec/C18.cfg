SPECIFICATION MCSpec
CONSTANTS
  Slot = {1,2}
  NameIds = {}
  FlagSet = {}
  MaxUnique = 2
  Uids = {0}
  Ops = {"close", "send"}
  LimNames = 3
  LimMatch = 2
  LimReplies = 2
  LimCompleted = 3
  LimPerUser = 3
  SendTy = {1,2,3}
  SendSer = {1,2}
  SendRs = {0,1,2}
  SendFl = {0,1}
VIEW View
INVARIANTS TypeOK QueueNoDup OnlyActiveQueued ReservedNamesNeverOwned NamesWithinLimit UniqueNamesDistinct UniqueNamesRecorded SenderIsOrigin RulesWithinLimit PendWithinLimit NoRulesForAbsent PendWellFormed AtMostOneCopy OnlyLiveRecipients ErrorXorDelivery CompletedWithinLimit PerUserWithinLimit
PROPERTIES OwnerChangeSignalled UniqueNeverReused RefusalChangesNothing UnicastToOwnerOnly BroadcastOnlyToMatching SlotOnlyForDeliveredCall NoReplyOnlyOnExpiry
CHECK_DEADLOCK FALSE

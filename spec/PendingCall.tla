----------------------------- MODULE PendingCall -----------------------------
(* Closed model: all interleavings of calls, replies (genuine, duplicate, bogus,*)
(* error), dispatch, timeouts, cancel, block and peer close over a few calls.  *)
EXTENDS PendingCallOps, TLC
CONSTANTS Tags
VARIABLES st, nser
vars == <<st, nser>>
Init == st = PInit /\ nser = 1
DoCall(t) == /\ t \notin DOMAIN st.calls /\ st.connected
             /\ st' = [st EXCEPT !.calls = Put(st.calls, t, NewCall(nser, 100, TRUE)), !.serials = @ \cup {nser}]
             /\ nser' = nser + 1
DoReply(t, kind) == /\ t \in DOMAIN st.calls /\ st.connected /\ Len(st.inflight) < 3
                    /\ LET c == st.calls[t]
                           one == [rs |-> IF kind = "bogus" THEN c.ser + 1000 ELSE c.ser, kind |-> IF kind = "err" THEN "err" ELSE "ret", tok |-> t] IN
                       st' = [st EXCEPT !.inflight = @ \o (IF kind = "dup" THEN <<one, one>> ELSE <<one>>)]
                    /\ UNCHANGED nser
DoDispatch == st' = DispatchAll(st) /\ UNCHANGED nser
DoTimeout(t) == t \in DOMAIN st.calls /\ st' = FireAll(st, <<t>>, 1) /\ UNCHANGED nser
DoCancel(t) == /\ t \in DOMAIN st.calls /\ Pending(st.calls[t])
               /\ st' = [st EXCEPT !.calls = Put(st.calls, t, [st.calls[t] EXCEPT !.cancelled = TRUE])] /\ UNCHANGED nser
DoClose == st.connected /\ st' = [FailAll(DispatchAll(st), DOMAIN st.calls) EXCEPT !.connected = FALSE] /\ UNCHANGED nser
Next == \/ \E t \in Tags : DoCall(t) \/ DoTimeout(t) \/ DoCancel(t) \/ \E kd \in {"ret", "err", "dup", "bogus"} : DoReply(t, kd)
        \/ DoDispatch \/ DoClose
Spec == Init /\ [][Next]_vars /\ WF_vars(DoDispatch) /\ \A t \in Tags : WF_vars(DoTimeout(t))
CompletesAtMostOnce == AtMostOnce(st)
CancelNeverNotified == CancelledNeverNotified(st)
NotifiedExactlyWhenDone == DoneNotifiedIffAsked(st)
ReplyMatchesSerial == \A t \in DOMAIN st.calls : st.calls[t].done /\ st.calls[t].res = "ret" => st.calls[t].tok = t
SerialsDistinct == \A a, b \in DOMAIN st.calls : a # b => st.calls[a].ser # st.calls[b].ser /\ st.calls[a].ser # 0
\* every call is eventually completed or cancelled (timeouts are fair)
Settled(t) == t \in DOMAIN st.calls /\ (st.calls[t].done \/ st.calls[t].cancelled)
EventuallyDone == \A t \in Tags : [](t \in DOMAIN st.calls => <>Settled(t))
=============================================================================

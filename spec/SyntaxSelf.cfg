INIT Init
NEXT Next

SPECIFICATION MCSpec
CONSTANTS
  Slot = {1,2}
  NameIds = {1}
  FlagSet = {0,3}
  MaxUnique = 3
  Uids = {0}
  Ops = {"names", "close", "match", "send"}
  LimNames = 3
  LimMatch = 2
  LimReplies = 2
  LimCompleted = 3
  LimPerUser = 3
VIEW View
INVARIANTS TypeOK QueueNoDup OnlyActiveQueued UniqueNamesDistinct UniqueNamesRecorded SenderIsOrigin RulesWithinLimit PendWithinLimit NoRulesForAbsent PendWellFormed
PROPERTIES OwnerChangeSignalled UniqueNeverReused RefusalChangesNothing
CHECK_DEADLOCK FALSE

SPECIFICATION MCSpec
CONSTANTS
  Slot = {1,2}
  NameIds = {1}
  FlagSet = {0}
  MaxUnique = 2
  Uids = {0}
  Ops = {"names", "send", "act"}
  LimNames = 2
  LimMatch = 2
  LimReplies = 1
  LimCompleted = 3
  LimPerUser = 3
  SendTy = {1}
  SendSer = {1}
  SendRs = {0}
  SendFl = {0}
VIEW View
INVARIANTS PendingOnlyForUnowned OnePendingPerName WaitersWithinLimit TypeOK QueueNoDup OnlyActiveQueued ReservedNamesNeverOwned NamesWithinLimit UniqueNamesDistinct UniqueNamesRecorded SenderIsOrigin RulesWithinLimit PendWithinLimit NoRulesForAbsent PendWellFormed AtMostOneCopy OnlyLiveRecipients ErrorXorDelivery CompletedWithinLimit PerUserWithinLimit
PROPERTIES SpawnAtMostOncePerActivation HeldReleasedOnceInOrder FailureReachesEveryWaiter OwnerChangeSignalled UniqueNeverReused RefusalChangesNothing UnicastToOwnerOnly BroadcastOnlyToMatching SlotOnlyForDeliveredCall NoReplyOnlyOnExpiry
CONSTRAINT ActBound
CHECK_DEADLOCK FALSE

-------------------------------- MODULE Auth --------------------------------
(* Closed model of the SASL server: all command sequences up to a bounded     *)
(* length, for each allowed-mechanism set.                                    *)
EXTENDS AuthOps, TLC
CONSTANTS Allowed, MaxLen
VARIABLES s, n, via     \* via: ghost -- the mechanism whose completion produced the current authorization
vars == <<s, n, via>>
Cfg == [allowed |-> Allowed, sockUid |-> 1000, serverUid |-> 0, sockCanReadKeyring |-> TRUE, sockGids |-> <<2, 1000>>]
Cmds == [c : {"cancel", "error", "begin", "fd", "unknown"}, mech : {""}, hex : {"none"}, who : {"empty"}, resp : {"wrong"}]
        \cup [c : {"auth"}, mech : {"EXTERNAL", "DBUS_COOKIE_SHA1", "ANONYMOUS", "OTHER", ""}, hex : {"none", "ok", "bad"}, who : {"same", "other", "garbage"}, resp : {"wrong"}]
        \cup [c : {"data"}, mech : {""}, hex : {"none", "ok", "bad"}, who : {"same", "other", "empty"}, resp : {"correct", "wrong"}]
Init == s = AInit /\ n = 0 /\ via = ""
Next == /\ n < MaxLen /\ s.st \notin {"Dead", "Authed"}
        /\ \E cm \in Cmds : LET r == AuthStep(Cfg, s, cm) IN
              /\ s' = r.s /\ n' = n + 1
              /\ via' = IF r.out = "ok" THEN r.s.mech ELSE IF r.out = "rejected" THEN "" ELSE via
Spec == Init /\ [][Next]_vars
\* authenticated only via a permitted, completed mechanism followed by BEGIN
AuthenticatedOnlyViaPermittedMech == s.st \in {"WaitBegin", "Authed"} => via \in Allowed /\ s.authz # "none"
IdentityIsMechIdentity == s.st \in {"WaitBegin", "Authed"} =>
   (via = "EXTERNAL" => s.authz = "uid") /\ (via = "ANONYMOUS" => s.authz = "anon") /\ (via = "DBUS_COOKIE_SHA1" => s.authz = "server")
RejectClearsIdentity == s.st = "WaitAuth" => s.authz = "none" /\ s.ident = ""
FailuresBounded == s.fails <= MaxFailures /\ (s.fails = MaxFailures => s.st = "Dead")
NoAuthWithoutOk == [][s'.authz # "none" /\ s.authz = "none" => s'.st = "WaitBegin"]_vars
\* rejections add up over the whole handshake: nothing (a completed and abandoned exchange included) gives attempts back
RejectionsOnlyAddUp == [][s'.fails >= s.fails /\ (s'.fails > s.fails => s'.fails = s.fails + 1)]_vars
=============================================================================

SPECIFICATION MCSpec
CONSTANTS
  Slot = {1,2}
  NameIds = {1,2}
  FlagSet = {0,1,2,3,4,5,6,7}
  MaxUnique = 3
  Uids = {0}
  Ops = {"names", "close", "odd"}
  LimNames = 3
  LimMatch = 2
  LimReplies = 2
  LimCompleted = 3
  LimPerUser = 3
  SendTy = {}
  SendSer = {}
  SendRs = {}
  SendFl = {}
VIEW View
INVARIANTS TypeOK QueueNoDup OnlyActiveQueued ReservedNamesNeverOwned NamesWithinLimit UniqueNamesDistinct UniqueNamesRecorded SenderIsOrigin RulesWithinLimit PendWithinLimit NoRulesForAbsent PendWellFormed AtMostOneCopy OnlyLiveRecipients ErrorXorDelivery CompletedWithinLimit PerUserWithinLimit
PROPERTIES OwnerChangeSignalled UniqueNeverReused RefusalChangesNothing UnicastToOwnerOnly BroadcastOnlyToMatching SlotOnlyForDeliveredCall NoReplyOnlyOnExpiry
CHECK_DEADLOCK FALSE

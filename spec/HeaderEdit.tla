----------------------------- MODULE HeaderEdit -----------------------------
(* A message header as a finite map from field code to value, stored on the   *)
(* wire as a sequence of (code, value) entries in arbitrary order, possibly   *)
(* with unknown codes.  Edits: Set(code, v) replaces the entry in place or     *)
(* appends it, Delete(code) removes it, StripUnknown removes codes > Last.    *)
(* Property: the abstract map after any edit sequence is the map obtained by  *)
(* applying the edits to the abstract map (serialisation order is irrelevant),*)
(* every code occurs at most once, and the body/fixed part never change.      *)
EXTENDS Naturals, Sequences, FiniteSets
CONSTANTS Codes, Unknown, Vals, MaxEdits
VARIABLES wire,     \* Seq of [c, v]  (the header array as serialised)
          abs,      \* [Codes \cup Unknown -> Vals \cup {0}]  the abstract map, 0 = absent (ghost)
          fixed,    \* the part no edit may touch (flags, serial, signature, body): a token
          n
vars == <<wire, abs, fixed, n>>
All == Codes \cup Unknown
Lookup(w, c) == IF \E i \in 1..Len(w) : w[i].c = c THEN w[CHOOSE i \in 1..Len(w) : w[i].c = c].v ELSE 0
Init == /\ wire \in {<<>>, <<[c |-> 1, v |-> 1], [c |-> 200, v |-> 2], [c |-> 2, v |-> 1]>>, <<[c |-> 201, v |-> 1], [c |-> 3, v |-> 2]>>}
        /\ abs = [c \in All |-> Lookup(wire, c)] /\ fixed = "body" /\ n = 0
Set(c, v) == /\ wire' = IF \E i \in 1..Len(wire) : wire[i].c = c
                        THEN [i \in 1..Len(wire) |-> IF wire[i].c = c THEN [c |-> c, v |-> v] ELSE wire[i]]
                        ELSE Append(wire, [c |-> c, v |-> v])
             /\ abs' = [abs EXCEPT ![c] = v]
Delete(c) == /\ wire' = SelectSeq(wire, LAMBDA e : e.c # c) /\ abs' = [abs EXCEPT ![c] = 0]
Strip == /\ wire' = SelectSeq(wire, LAMBDA e : e.c \in Codes) /\ abs' = [c \in All |-> IF c \in Unknown THEN 0 ELSE abs[c]]
Next == /\ n < MaxEdits /\ n' = n + 1 /\ UNCHANGED fixed
        /\ \/ \E c \in Codes, v \in Vals : Set(c, v)
           \/ \E c \in Codes : Delete(c)
           \/ Strip
Spec == Init /\ [][Next]_vars
DecodeAgrees == \A c \in All : Lookup(wire, c) = abs[c]
NoDuplicates == \A i, j \in 1..Len(wire) : i # j => wire[i].c # wire[j].c
FixedUntouched == fixed = "body"
=============================================================================

SPECIFICATION MCSpec
CONSTANTS
  Slot = {1,2}
  NameIds = {1}
  FlagSet = {0}
  MaxUnique = 3
  Uids = {0}
  Ops = {"close", "fd", "match"}
  LimNames = 3
  LimMatch = 2
  LimReplies = 1
  LimCompleted = 3
  LimPerUser = 3
  SendTy = {1,4}
  SendSer = {1}
  SendRs = {0,1}
  SendFl = {0}
VIEW View
INVARIANTS FdOnlyToCapable FdHeldOnce FdNotBoth TypeOK QueueNoDup OnlyActiveQueued ReservedNamesNeverOwned NamesWithinLimit UniqueNamesDistinct UniqueNamesRecorded SenderIsOrigin RulesWithinLimit PendWithinLimit NoRulesForAbsent PendWellFormed AtMostOneCopy OnlyLiveRecipients ErrorXorDelivery CompletedWithinLimit PerUserWithinLimit
PROPERTIES RefusedCallLeavesNoSlot OwnerChangeSignalled UniqueNeverReused RefusalChangesNothing UnicastToOwnerOnly BroadcastOnlyToMatching SlotOnlyForDeliveredCall NoReplyOnlyOnExpiry
CHECK_DEADLOCK FALSE

SPECIFICATION TSpec
CONSTANT Slot = {1,2,3,4,5,6}
CONSTANT OomMode = TRUE
CONSTRAINT Progress
POSTCONDITION Accepted
CHECK_DEADLOCK FALSE

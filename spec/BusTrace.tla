------------------------------ MODULE BusTrace ------------------------------
(* Trace validation: is the recorded behaviour of the real dbus-daemon a      *)
(* behaviour of Bus.tla?  The log (NDJSON, env TRACE) holds Reset lines (new   *)
(* daemon + configuration) and Round lines: what each client wrote (in its own *)
(* order), which clients then did the closing barrier ping, and everything     *)
(* each client read.  TLC chooses the order in which the daemon served the     *)
(* clients and where the silent steps (disconnect processing, expiry) fall.    *)
EXTENDS Bus, Json, IOUtils

CONSTANT OomMode     \* TRUE for traces of the in-process fault-injection harness (ops carry an "oom" flag)
Log == ndJsonDeserialize(IOEnv.TRACE)

VARIABLES l,      \* index of the current log line
          pos,    \* [Slot -> number of ops of the current round already applied]
          cnt,    \* [Slot -> number of observed messages of the current round already explained]
          sdone,  \* slots whose closing barrier ping was applied
          gone,   \* slots whose client closed (nothing more is read on them)
          kicked, \* slots the daemon closed (expected: the client saw EOF)
          devs,   \* names of the known-defect deviations that were needed to explain the trace
          qfull,  \* unread clients whose outgoing queue has filled up: the copies their match rules would earn them vanish
          skipd,  \* slots some of whose written messages the daemon never read (it had closed the connection)
          carry   \* [Slot -> Seq of groups] staged for a client after its closing barrier ping of this round was
                  \* served: the client reads them at the beginning of the next round

tvars == <<l, pos, cnt, sdone, gone, kicked, devs, skipd, carry, qfull>>
NoCarry == [s \in Slot |-> <<>>]
\* deviations tolerated in this run: one JSON object {"dev": name} per line of the file named by VERIF_DEVS
DevSet == LET d == ndJsonDeserialize(IOEnv.VERIF_DEVS) IN {d[i].dev : i \in 1..Len(d)}
Plain(A) == A /\ UNCHANGED <<devs, qfull>>
Dev(name, A) == name \in DevSet /\ A /\ devs' = devs \cup {name} /\ UNCHANGED qfull
Ev == Log[l]
IsRound == l <= Len(Log) /\ Ev.e = "Round"

MkCfg(c) == [maxNames |-> c.maxNames, maxMatch |-> c.maxMatch, maxReplies |-> c.maxReplies,
             maxCompleted |-> c.maxCompleted, maxPerUser |-> c.maxPerUser, busUid |-> c.busUid,
             policy |-> c.policy, epoch |-> 2, maxMsgFds |-> c.maxMsgFds, maxMsgSize |-> c.maxMsgSize,
             \* activation: service files, limit on waiting requests
             act |-> IF "act" \in DOMAIN c THEN c.act ELSE <<>>,
             maxPendingAct |-> IF "maxPendingAct" \in DOMAIN c THEN c.maxPendingAct ELSE 512,
             \* what the recorder knows about the processes: the bus's pid and machine-unique id, the clients' pid
             busPid |-> IF "busPid" \in DOMAIN c THEN c.busPid ELSE 0,
             clientPid |-> IF "clientPid" \in DOMAIN c THEN c.clientPid ELSE 0,
             guid |-> IF "guid" \in DOMAIN c THEN c.guid ELSE <<>>]

ZeroPos == [s \in Slot |-> 0]
\* the known-defect deviation PolicyPruning is a property of the whole run of one daemon: chosen at Reset
PolicyChoices(p) == IF p.kind = "rules" /\ "PolicyPruning" \in DevSet THEN {p, [p EXCEPT !.prune = TRUE]} ELSE {p}
PrunedDev(p) == IF p.kind = "rules" /\ p.prune THEN {"PolicyPruning"} ELSE {}

TInit ==
  /\ l = 1 /\ Len(Log) >= 1 /\ Log[1].e = "Reset"
  /\ \E p \in PolicyChoices(Log[1].cfg.policy) :
        /\ cfg = [MkCfg(Log[1].cfg) EXCEPT !.policy = p] /\ devs = PrunedDev(p)
  /\ Init0
  /\ pos = ZeroPos /\ cnt = ZeroPos /\ sdone = {} /\ gone = {} /\ kicked = {} /\ skipd = {} /\ carry = NoCarry /\ qfull = {}
  /\ TLCSet(1, 0)

W == INSTANCE Wire
\* ---- comparing an observed message with an expected one
ArgsEq(oa, ea) == /\ Len(oa) = Len(ea)
                  /\ \A i \in 1..Len(ea) : oa[i].t = ea[i].t /\ oa[i].v = ea[i].v
SetOf(sq) == {sq[i] : i \in 1..Len(sq)}
MsgMatch(o, e) ==
  /\ o.ty = e.ty /\ o.snd = e.snd /\ o.dst = e.dst /\ o.rs = e.rs
  /\ (IF e.ser = 0 THEN o.ser # 0 ELSE o.ser = e.ser)
  /\ o.path = e.path /\ o.ifc = e.ifc /\ o.mem = e.mem /\ o.err = e.err
  /\ o.unk = <<>> /\ o.ci = FALSE /\ o.nfd = e.nfd /\ o.fds = e.fds
  /\ o.mal = FALSE          \* the bytes the client read were well-formed (zero padding, exact body length)
  /\ CASE e.cmp = "exact" -> o.sig = e.sig /\ ArgsEq(o.args, e.args) /\ (e.org # 0 => o.fl = e.fl)
       [] e.cmp = "set1" -> /\ o.sig = e.sig /\ Len(o.args) = 1
                            /\ Len(o.args[1].v) = Len(e.args[1].v) /\ SetOf(o.args[1].v) = SetOf(e.args[1].v)
       [] e.cmp = "errtext" -> TRUE
       [] e.cmp = "local" -> TRUE
       \* a message that was written as raw bytes: the body the recipient read decodes (Wire.tla) to the same value
       \* tree as the body that was written, flags byte untouched
       [] e.cmp = "rawbody" -> /\ o.sig = e.sig /\ o.fl = e.fl
                               /\ LET bd == W!BodyDec(o.braw, o.sig, o.le) IN bd.ok /\ bd.v = e.tree

IsReply(m) == m.ty \in {2, 3} /\ m.org = 0
\* one action's messages for one client: any order, except that the reply to the client's own request
\* (the last staged reply) comes last
RECURSIVE BagMatch(_,_)
BagMatch(os, es) ==
  IF es = <<>> THEN os = <<>>
  ELSE \E i \in 1..Len(os) : MsgMatch(os[i], es[1]) /\ BagMatch(RemoveAt(os, i), Tail(es))
\* ... and messages from clients (held messages released together when their service appears) keep their order
FromClient(ms) == SelectSeq(ms, LAMBDA m : m.snd # BUS /\ m.snd # <<>> /\ m.dst # <<>>)
ClientOrderOK(os, es) ==
  LET a == FromClient(os)  b == FromClient(es) IN
  Len(b) > 1 => /\ Len(a) = Len(b)
                /\ \A i \in 1..Len(b) : a[i].ser = b[i].ser /\ a[i].snd = b[i].snd
GroupMatch(os, es) ==
  /\ Len(os) = Len(es)
  /\ ClientOrderOK(os, es)
  /\ IF es # <<>> /\ IsReply(es[Len(es)])
     THEN /\ MsgMatch(os[Len(os)], es[Len(es)])
          /\ BagMatch(SubSeq(os, 1, Len(os) - 1), SubSeq(es, 1, Len(es) - 1))
     ELSE BagMatch(os, es)

GroupFor(o, r) == LET sel == SelectSeq(o, LAMBDA e : e.to = r) IN [i \in 1..Len(sel) |-> sel[i].m]

\* after a Bus action: every client that is still reading must have observed exactly what was staged for it
Debug == IOEnv.VERIF_DEBUG = "1"
\* carried groups against the head of the next round's observations
RECURSIVE CarryMatch(_,_,_,_)
CarryMatch(ob, start, groups, i) ==
  IF i > Len(groups) THEN TRUE
  ELSE /\ start + Len(groups[i]) <= Len(ob)
       /\ GroupMatch(SubSeq(ob, start + 1, start + Len(groups[i])), groups[i])
       /\ CarryMatch(ob, start + Len(groups[i]), groups, i + 1)
RECURSIVE CarryLen(_,_)
CarryLen(groups, i) == IF i > Len(groups) THEN 0 ELSE Len(groups[i]) + CarryLen(groups, i + 1)
NextIsRound == IF l + 1 <= Len(Log) THEN Log[l + 1].e = "Round" ELSE FALSE

SyncSlots == {Ev.sync[i].s : i \in 1..Len(Ev.sync)}
SyncSer(s) == (CHOOSE i \in 1..Len(Ev.sync) : Ev.sync[i].s = s)
\* how the messages staged for r by this step are accounted for: "now" (they are the next observations of this
\* round) or "carry" (the client had stopped reading for this round: it reads them first thing next round).
\* A monitor cannot take part in the barrier; the driver reads it until it falls quiet after the last closing
\* ping, so what is staged for it after that point may land in either round.
\* (a client whose connection the daemon closes in this round may lose the tail of what had been written to it --
\* closing a socket with unread input resets the peer -- so for such a client the observations only have to be a
\* prefix of what was staged)
EofSet == {Ev.eof[i] : i \in 1..Len(Ev.eof)}
\* clients the driver does not read at all during a round (they catch up when the driver resumes reading them)
StalledIn(ln) == IF "stalled" \in DOMAIN ln THEN {ln.stalled[i] : i \in 1..Len(ln.stalled)} ELSE {}
StalledNow == StalledIn(Ev)
StalledNext == IF l + 1 <= Len(Log) /\ Log[l + 1].e = "Round" THEN StalledIn(Log[l + 1]) ELSE {}
NowOK(r, grp) == IF cnt[r] + Len(grp) <= Len(Ev.obs[r])
                 THEN GroupMatch(SubSeq(Ev.obs[r], cnt[r] + 1, cnt[r] + Len(grp)), grp)
                 ELSE r \in EofSet /\ cnt[r] = Len(Ev.obs[r])
LateMonitor(r) == cst[r] = "monitor" /\ IsRound /\ sdone = SyncSlots /\ \A s \in Slot : pos[s] = Len(Ev.ops[s])
Mode(r, grp) == IF r \in sdone \/ r \in StalledNow THEN "carry"
                ELSE IF LateMonitor(r) /\ (carry[r] # <<>> \/ ~NowOK(r, grp)) THEN "carry"
                ELSE "now"
\* sy is the client whose closing ping this step is (NoSlot otherwise): the driver stops reading that client at the
\* reply to the ping, so whatever the same action stages for it after that reply (its own eavesdropping rule may
\* match the ping) is read first thing next round
SyncCut(grp, sy) == IF \E k \in 1..Len(grp) : IsReply(grp[k]) /\ grp[k].rs = Ev.sync[SyncSer(sy)].ser
                    THEN CHOOSE k \in 1..Len(grp) : /\ IsReply(grp[k]) /\ grp[k].rs = Ev.sync[SyncSer(sy)].ser
                                                    /\ \A j \in 1..(k - 1) : ~(IsReply(grp[j]) /\ grp[j].rs = grp[k].rs)
                    ELSE Len(grp)
NowPart(r, sy) == LET grp == GroupFor(out', r) IN IF r = sy THEN SubSeq(grp, 1, SyncCut(grp, sy)) ELSE grp
LatePart(r, sy) == LET grp == GroupFor(out', r) IN IF r = sy THEN SubSeq(grp, SyncCut(grp, sy) + 1, Len(grp)) ELSE <<>>
ExplainOK(g, sy) ==
  \A r \in Slot : r \notin g =>
        LET grp == NowPart(r, sy)
            late == LatePart(r, sy) IN
        IF grp = <<>> THEN TRUE
        ELSE IF Mode(r, grp) = "now"
             THEN /\ NowOK(r, grp)
                  /\ (late # <<>> /\ NextIsRound /\ r \notin StalledNext) => CarryMatch(Log[l + 1].obs[r], 0, Append(carry[r], late), 1)
        \* (the backlog of a client that is not being read is compared when the round ends, if it is still there)
        ELSE IF NextIsRound /\ r \notin StalledNext \cup StalledNow THEN CarryMatch(Log[l + 1].obs[r], 0, Append(carry[r], grp), 1) ELSE TRUE
ExplainS(g, sy) ==
  /\ \/ ExplainOK(g, sy)
     \/ /\ Debug
        /\ PrintT(<<"MISMATCH", ToJson([l |-> l, pos |-> pos, cnt |-> cnt, out |-> out',
                     bad |-> {r \in Slot : r \notin g /\ NowPart(r, sy) # <<>> /\ Mode(r, NowPart(r, sy)) = "now"
                                           /\ ~NowOK(r, NowPart(r, sy))},
                     badcarry |-> {r \in Slot : r \notin g /\ NowPart(r, sy) # <<>> /\ Mode(r, NowPart(r, sy)) = "carry"}])>>)
        /\ FALSE
  /\ cnt' = [r \in Slot |-> IF r \in g \/ NowPart(r, sy) = <<>> \/ Mode(r, NowPart(r, sy)) = "carry"
                             THEN cnt[r]
                             ELSE IF cnt[r] + Len(NowPart(r, sy)) <= Len(Ev.obs[r]) THEN cnt[r] + Len(NowPart(r, sy))
                             ELSE cnt[r]]
  /\ carry' = [r \in Slot |-> IF r \notin g /\ NowPart(r, sy) # <<>> /\ Mode(r, NowPart(r, sy)) = "carry"
                               THEN Append(carry[r], NowPart(r, sy))
                               ELSE IF r \notin g /\ LatePart(r, sy) # <<>> THEN Append(carry[r], LatePart(r, sy))
                               ELSE carry[r]]
Explain(g) == ExplainS(g, NoSlot)

\* ---- abstract message of a "send" op
OpMsg(op) == Msg(op.ty, <<>>, op.dst, op.ser, op.rs, op.path, op.ifc, op.mem, op.err, op.sig, op.args, op.fl, 0, "exact")
\* descriptors: op.att are the tokens of the descriptors attached to this write, op.nfd is what the header announces;
\* the message claims the first nfd of (held so far) \o (attached now); announcing more than there are, or more
\* than the per-message maximum, makes the message invalid (the sender is disconnected)
\* a connection that did not negotiate descriptor passing is read with plain read(): whatever was attached to the
\* write is discarded by the kernel and never reaches the loader
FdPool(s, op) == IF fdx.cap[s] THEN fdx.held[s] \o op.att ELSE <<>>
\* the loader has room for cfg.maxMsgFds descriptors in all: a read that brings more than fit fails as a whole
FdBad(s, op) == \/ op.nfd > Len(FdPool(s, op)) \/ op.nfd > cfg.maxMsgFds \/ Len(FdPool(s, op)) > cfg.maxMsgFds
OpMsgFds(s, op) == [OpMsg(op) EXCEPT !.nfd = op.nfd, !.fds = SubSeq(FdPool(s, op), 1, op.nfd)]

\* ---- raw bytes written by a (hostile) client: Wire.tla decides what they are.  The driver writes one candidate
\* message per op (it cuts at the length the first 16 bytes announce), so the bytes are: not yet a whole message
\* ("incomplete": the loader waits, nothing happens), something that can never become a valid message ("corrupt":
\* the sender is disconnected, nothing else happens), or exactly one valid message ("msg": routed like any other).
RawClassL(s, b, L) ==
  IF Len(b) < 16 THEN "incomplete"
  ELSE LET fx == W!Fixed(b) IN
       IF ~fx.ok \/ fx.total > cfg.maxMsgSize THEN "corrupt"
       ELSE IF Len(b) < fx.total THEN "incomplete"
       ELSE IF Len(b) > fx.total THEN "badcut"
       ELSE IF W!MessageDecXL(b, Len(fdx.held[s]), TRUE, L).ok THEN "msg" ELSE "corrupt"
RawClass(s, b) == RawClassL(s, b, FALSE)
U32T(t) == t[1] + 256 * t[2] + 65536 * t[3] + 16777216 * t[4]
TopArgs(tree) == [i \in 1..Len(tree) |-> [t |-> tree[i].t, v |-> IF tree[i].t \in {cS, cO, cG} THEN tree[i].v ELSE <<>>]]
RawM(s, b) ==
  LET d == W!MessageDecXL(b, Len(fdx.held[s]), TRUE, TRUE)
      m == d.m IN
  [ty |-> m.ty, snd |-> <<>>, dst |-> m.dst, ser |-> U32T(m.ser), rs |-> U32T(m.rs), path |-> m.path, ifc |-> m.ifc,
   mem |-> m.mem, err |-> m.err, sig |-> m.sig, args |-> TopArgs(m.body), fl |-> b[3], org |-> 0, cmp |-> "rawbody",
   nfd |-> d.nfd, fds |-> SubSeq(fdx.held[s], 1, d.nfd), unk |-> <<>>, ci |-> FALSE, tree |-> m.body, fsnd |-> m.snd]
RawRepresentable(b) == LET m == W!MessageDecXL(b, 16, TRUE, TRUE).m IN m.ser[4] < 128 /\ m.rs[4] < 128
Nop == out' = <<>> /\ UNCHANGED <<cfg, cst, dying, uid, uname, everNames, queue, rules, pend, mon, fdx, act>>

\* a client the daemon closed may never see the reply to its Hello although the Hello was processed: the name it
\* got is then one of those announced to the others in this round
AllObs == UNION {{Ev.obs[r][i] : i \in 1..Len(Ev.obs[r])} : r \in Slot}
ObsOf(ln) == UNION {{ln.obs[r][i] : i \in 1..Len(ln.obs[r])} : r \in Slot}
UniquesIn(ms) == {m.args[1].v : m \in {x \in ms : /\ x.mem = S_NameOwnerChanged /\ x.snd = BUS /\ Len(x.args) = 3
                                                   /\ (x.args[2].v = <<>> \/ x.args[3].v = <<>>) /\ x.args[1].v # <<>>
                                                   /\ x.args[1].v[1] = cColon}}
\* (its arrival or, if nobody was listening yet, its departure in this round or the next; if nobody ever hears of
\* it, a name no real bus hands out stands for it)
RECURSIVE Digits(_)
Digits(n) == IF n < 10 THEN <<48 + n>> ELSE Append(Digits(n \div 10), 48 + (n % 10))
\* (... or as the stamped sender of something it managed to send)
SendersIn(ms) == {m.snd : m \in {x \in ms : x.snd # <<>> /\ x.snd[1] = cColon}}
AnnouncedUniques == UniquesIn(AllObs) \cup SendersIn(AllObs)
                    \cup (IF NextIsRound THEN UniquesIn(ObsOf(Log[l + 1])) \cup SendersIn(ObsOf(Log[l + 1])) ELSE {})
\* (... or as what the bus answered to the Hello itself, wherever that answer was read)
OwnReplies(s, op) == {m.args[1].v : m \in {x \in ObsOf(Ev) \cup (IF NextIsRound THEN ObsOf(Log[l + 1]) ELSE {}) :
                                            /\ x.ty = 2 /\ x.rs = op.ser /\ x.snd = BUS /\ Len(x.args) = 1
                                            /\ x.args[1].t = 115 /\ x.args[1].v # <<>> /\ x.args[1].v[1] = cColon
                                            /\ x.dst = x.args[1].v}}
HelloNames(s, op) == IF op.got # <<>> THEN {op.got}
                     ELSE AnnouncedUniques \cup OwnReplies(s, op) \cup {<<cColon, 48, 46>> \o Digits(l * 10 + s)}

\* internal state reported by the in-process harness (registry queues, primary's allow_replacement, rule counts)
DumpOK(op) ==
  /\ \A i \in 1..Len(op.names) :
        LET d == op.names[i]  q == QOf(queue, d.n) IN
        /\ d.q = [j \in 1..Len(q) |-> q[j].s]
        /\ (q # <<>> => d.ar = q[1].ar)
  /\ \A r \in Slot : op.nrules[r] = Len(rules[r])
  \* (the per-connection count the names limit is checked against: every queue entry and the unique name)
  \* (-1: the harness cannot look the connection up because the client was never told its name)
  /\ "nowned" \in DOMAIN op => \A r \in Slot : \/ op.nowned[r] = -1
                                                 \/ op.nowned[r] = IF cst[r] = "active" THEN HeldCount(queue, r) ELSE 0
Dump(op) == DumpOK(op) /\ out' = <<>> /\ UNCHANGED <<cfg, cst, dying, uid, uname, everNames, queue, rules, pend, mon, fdx, act>>

Apply0(s, op) ==
  IF cst[s] = "monitor" /\ op.k # "connect"
  THEN \/ Plain(MonitorSpeaks(s))
       \/ op.k = "send" /\ Dev("MonitorPeerAnsweredLocally", Dev_MonitorPeerAnsweredLocally(s, OpMsg(op), op.fsnd))
  ELSE
  CASE op.k = "connect" -> Plain(Connect(s, op.uid, op.fdcap))
    [] op.k = "monitor" -> \E order \in [1..Cardinality(NamesOf(queue, s)) -> NamesOf(queue, s)] :
                              Plain(BecomeMonitor(s, op.ser, op.fl, op.rules, op.flags, order))
    [] op.k = "hello" -> \E nw \in HelloNames(s, op) : Plain(Hello(s, op.ser, op.fl, nw))
    [] op.k = "req" -> Plain(RequestName(s, op.ser, op.fl, op.n, op.f))
    [] op.k = "rel" -> Plain(ReleaseName(s, op.ser, op.fl, op.n))
    [] op.k = "query" -> Plain(Query(s, op.ser, op.fl, op.q, op.n))
    [] op.k = "ping" -> Plain(Query(s, op.ser, 0, "ping", <<>>))
    [] op.k = "addmatch" -> Plain(AddMatch(s, op.ser, op.fl, op.rule))
    \* (the driver rewrote the configuration file with op.cfg before calling ReloadConfig)
    [] op.k = "reload" -> \E p \in PolicyChoices(op.cfg.policy) :
                             /\ ReloadConfig(s, op.ser, op.fl, [MkCfg(op.cfg) EXCEPT !.policy = p])
                             /\ devs' = devs \cup PrunedDev(p) /\ UNCHANGED qfull
    [] op.k = "rmmatch" -> \/ Plain(RemoveMatch(s, op.ser, op.fl, op.rule))
                           \/ Dev("RemoveMatchAckThenError", Dev_RemoveMatchAckThenError(s, op.ser, op.fl, op.rule))
    [] op.k \in {"stall", "unstall"} -> Plain(Nop)
    [] op.k = "send" -> \/ /\ ~FdBad(s, op) /\ op.dst # BUS /\ op.dst # <<>> /\ Resolve(queue, op.dst) \in StalledNow
                           /\ Plain(SendFull(s, OpMsgFds(s, op), SubSeq(FdPool(s, op), op.nfd + 1, Len(FdPool(s, op)))))
                        \* clients that are not read and hold match rules may have full queues: their copies vanish
                        \* (a queue that has filled up stays full while the client is not read: qfull only grows, so the
                        \* copies that vanish form a suffix of what the client would have got)
                        \/ /\ ~FdBad(s, op) /\ op.dst # BUS
                           /\ \E N \in SUBSET ({r \in StalledNow : rules[r] # <<>> /\ cst[r] = "active"} \ qfull) :
                                 /\ N # {}
                                 /\ SendDropping(s, OpMsgFds(s, op), SubSeq(FdPool(s, op), op.nfd + 1, Len(FdPool(s, op))), qfull \cup N)
                                 /\ UNCHANGED devs /\ qfull' = qfull \cup N
                        \/ Plain(IF FdBad(s, op) THEN Corrupt(s)
                                  ELSE IF op.dst = BUS THEN DriverOther(s, OpMsg(op))
                                  ELSE SendX(s, OpMsgFds(s, op), SubSeq(FdPool(s, op), op.nfd + 1, Len(FdPool(s, op))), FALSE, qfull))
                        \/ Dev("LocalReplyUnstamped", Dev_LocalReplyUnstamped(s, OpMsg(op), op.fsnd))
    [] op.k = "close" -> Plain(PingAndClose(s, op.ser))
    [] op.k = "startsvc" -> Plain(StartService(s, op.ser, op.fl, op.n, op.flags))
    \* (environment, not a client: the driver made the process started for op.n end)
    [] op.k = "svc_exit" -> Plain(ChildExit(op.n, op.status, op.signaled))
    [] op.k = "big" -> Plain(Corrupt(s))
    [] op.k = "raw" ->
         LET With(D, A) == A /\ devs' = devs \cup D /\ UNCHANGED qfull
             RawStep(c, D) ==
               CASE c = "msg" -> /\ RawRepresentable(op.b)
                                 /\ LET m == RawM(s, op.b) IN
                                    \/ With(D, IF m.dst = BUS THEN DriverOther(s, m)
                                               ELSE Send(s, m, SubSeq(fdx.held[s], m.nfd + 1, Len(fdx.held[s]))))
                                    \/ /\ "LocalReplyUnstamped" \in DevSet
                                       /\ With(D \cup {"LocalReplyUnstamped"}, Dev_LocalReplyUnstamped(s, m, m.fsnd))
                 [] c = "corrupt" -> With(D, Corrupt(s))
                 [] c = "incomplete" -> With(D, Nop) /\ op.mute
                 [] OTHER -> FALSE IN
         \/ RawStep(RawClass(s, op.b), {})
         \* KNOWN DEFECT (deviation): DESTINATION / SENDER may be a unique name the specification does not allow
         \/ /\ RawClassL(s, op.b, TRUE) # RawClass(s, op.b)
            /\ "LenientUniqueName" \in DevSet /\ RawStep(RawClassL(s, op.b, TRUE), {"LenientUniqueName"})
    \* abrupt close: no farewell; the line must not have been dead already (the driver looks before closing)
    [] op.k = "aclose" -> Plain(ClientClose(s)) /\ ~op.waseof
    [] op.k = "dump" -> Plain(Dump(op))
    \* the bus never refuses or ignores a connection attempt (limits bite at Hello); anything unknown is no behaviour
    [] op.k = "connect_failed" -> FALSE
    [] OTHER -> FALSE

\* with fault injection a request either runs normally or is aborted as a whole
Apply(s, op) ==
  IF OomMode /\ op.k # "dump"
  THEN \/ Apply0(s, op)
       \/ op.oom /\ Plain(OomAbort(s, op.ser))
       \/ op.oom /\ op.k = "hello" /\ Dev("OomHelloHalfDone", Dev_OomHelloHalfDone(s, op.ser, op.got2))
       \/ op.oom /\ op.k \in {"req", "rel"} /\ Dev("OomKeepsQueueChange", Dev_OomKeepsQueueChange(s, op.ser, op.k, op.n, IF op.k = "req" THEN op.f ELSE 0))
  ELSE Apply0(s, op)

\* Partial-order reduction (sound): a barrier Ping changes nothing and its answer does not depend on the state,
\* so if the next thing a client read is the answer to its own next Ping, serving that Ping now loses nothing.
\* When such clients exist only the smallest of them takes a step.
PingReady(s) ==
  /\ pos[s] < Len(Ev.ops[s]) /\ s \notin skipd /\ s \notin gone \cup kicked /\ cst[s] = "active" /\ ~dying[s]
  /\ Ev.ops[s][pos[s] + 1].k = "ping"
  /\ cnt[s] < Len(Ev.obs[s])
  /\ LET o == Ev.obs[s][cnt[s] + 1] IN o.ty = 2 /\ o.snd = BUS /\ o.rs = Ev.ops[s][pos[s] + 1].ser
  /\ \A r \in Slot : cst[r] # "monitor" /\ \A i \in 1..Len(rules[r]) : ~rules[r][i].eav
ReadySet == {s \in Slot : PingReady(s)}
MayStep(s) == IF ReadySet = {} THEN TRUE ELSE s = CHOOSE x \in ReadySet : \A y \in ReadySet : x <= y

TStep(s) ==
  /\ IsRound /\ pos[s] < Len(Ev.ops[s]) /\ (s \notin skipd \/ Ev.ops[s][pos[s] + 1].k = "connect") /\ MayStep(s)
  /\ LET op == Ev.ops[s][pos[s] + 1] IN
     /\ Apply(s, op)
     /\ pos' = [pos EXCEPT ![s] = @ + 1]
     \* (a client that left a message unfinished is not read any more either)
     /\ gone' = IF op.k \in {"close", "aclose"} \/ (op.k = "raw" /\ op.mute) THEN gone \cup {s}
                ELSE IF op.k = "connect" THEN gone \ {s} ELSE gone
     /\ kicked' = (IF op.k = "connect" THEN kicked \ {s} ELSE kicked)
                  \cup {x \in Slot : dying'[x] /\ ~dying[x] /\ ~(x = s /\ op.k \in {"close", "aclose"})}
     /\ Explain(gone' \cup kicked')
     /\ skipd' = IF op.k = "connect" THEN skipd \ {s} ELSE skipd
  /\ UNCHANGED <<l, sdone>>

\* whatever a client writes after the daemon has closed its connection is never read
TSkip(s) ==
  /\ IsRound /\ pos[s] < Len(Ev.ops[s])
  /\ (dying[s] \/ cst[s] = "absent") /\ (s \in kicked \/ s \in gone)
  \* (a connection attempt is not something written to a dead connection: a failed one is never explained away)
  /\ Ev.ops[s][pos[s] + 1].k \notin {"connect", "connect_failed"}
  /\ pos' = [pos EXCEPT ![s] = @ + 1]
  /\ skipd' = skipd \cup {s}
  /\ UNCHANGED vars /\ UNCHANGED <<l, cnt, sdone, gone, kicked, devs, carry, qfull>>

AllOpsDone == \A s \in Slot : pos[s] = Len(Ev.ops[s])
\* the driver does the closing pings one client after the other, in increasing slot order
TSync(s) ==
  /\ IsRound /\ AllOpsDone /\ s \in SyncSlots \ sdone /\ \A x \in SyncSlots \ sdone : s <= x
  /\ Query(s, Ev.sync[SyncSer(s)].ser, 0, "ping", <<>>)
  /\ sdone' = sdone \cup {s}
  /\ ExplainS(gone \cup kicked, s)
  /\ UNCHANGED <<l, pos, gone, kicked, devs, skipd, qfull>>

TDrop(s) ==
  /\ IsRound
  /\ \E order \in [1..Cardinality(NamesOf(queue, s)) -> NamesOf(queue, s)] : Drop(s, order)
  /\ Explain(gone \cup kicked)
  /\ UNCHANGED <<l, pos, sdone, gone, kicked, devs, skipd, qfull>>

\* timing rules (one-sided): a slot whose callee is still there may expire only if it was recorded in a round that
\* began at least reply_timeout ago (Ev.expMay = last such round, 0 = none) ...
TExpire(i) ==
  /\ IsRound /\ i \in 1..Len(pend) /\ (pend[i].callee = NoSlot \/ pend[i].born <= Ev.expMay)
  /\ ExpirePending(i)
  /\ Explain(gone \cup kicked)
  /\ UNCHANGED <<l, pos, sdone, gone, kicked, devs, skipd, qfull>>

\* the start of a service fails on its own: the program cannot be executed (any time), or the start timeout has
\* passed (one-sided timing as for TExpire: Ev.actMay = last round that began at least service_start_timeout ago)
TActFail(n) ==
  /\ IsRound /\ PIdx(act.pend, n) # 0
  /\ \/ ExecFails(n)
     \/ act.pend[PIdx(act.pend, n)].born <= Ev.actMay /\ ActTimeout(n)
  /\ Explain(gone \cup kicked)
  /\ UNCHANGED <<l, pos, sdone, gone, kicked, devs, skipd, qfull>>
ActNamesPending == {act.pend[i].n : i \in 1..Len(act.pend)}

\* end of the round: everything read has been explained, every EOF seen by a client is one the model predicts
TEnd ==
  /\ IsRound /\ AllOpsDone /\ sdone = SyncSlots
  /\ \A r \in Slot : r \notin gone \cup kicked => cnt[r] = Len(Ev.obs[r])
  /\ EofSet = kicked /\ Ev.stall = <<>>
  \* ... and must have expired if it was recorded in a round that ended long ago (Ev.expMust), or if its callee
  \* went away in an earlier round ("expires at once")
  /\ \A i \in 1..Len(pend) : pend[i].born > Ev.expMust /\ (pend[i].callee = NoSlot => pend[i].orph = cfg.epoch)
  \* activation: a start that cannot succeed has failed by now, an old one has timed out, and the daemon has
  \* started exactly as many processes as the specification says
  /\ \A i \in 1..Len(act.pend) : act.pend[i].born > Ev.actMust /\ ActKind(act.pend[i].n) # "noexec"
  /\ \A i \in 1..Len(Ev.starts) : SpawnCount(Ev.starts[i].n) = Ev.starts[i].k
  /\ \A n \in DOMAIN act.spawned : \E i \in 1..Len(Ev.starts) : Ev.starts[i].n = n
  /\ l' = l + 1 /\ pos' = ZeroPos /\ sdone' = {}
  /\ IF l + 1 <= Len(Log) /\ Log[l + 1].e = "Round"
     THEN /\ \A r \in Slot : r \notin gone \cup kicked \cup StalledNext => CarryMatch(Log[l + 1].obs[r], 0, carry[r], 1)
          /\ cnt' = [r \in Slot |-> IF r \in gone \cup kicked \cup StalledNext THEN 0 ELSE CarryLen(carry[r], 1)]
     ELSE cnt' = ZeroPos
  \* (a client that stays unread keeps its backlog)
  /\ carry' = [r \in Slot |-> IF r \in StalledNext /\ r \notin gone \cup kicked THEN carry[r] ELSE <<>>]
  /\ kicked' = {}
  /\ gone' = gone \cup kicked
  /\ UNCHANGED <<devs, skipd>>
  \* (a client that is read again, or gone, has no backlog any more)
  /\ qfull' = qfull \cap StalledNext
  /\ cfg' = [cfg EXCEPT !.epoch = @ + 1]
  /\ UNCHANGED <<cst, dying, uid, uname, everNames, queue, rules, pend, mon, fdx, act, out>>

TEndDebug ==
  /\ Debug /\ IsRound /\ AllOpsDone /\ sdone = SyncSlots
  /\ PrintT(<<"ENDSTATE", ToJson([l |-> l, epoch |-> cfg.epoch, pend |-> pend, kicked |-> kicked, eof |-> EofSet, cnt |-> cnt, cst |-> cst, dying |-> dying,
                                 lens |-> [r \in Slot |-> Len(Ev.obs[r])], gone |-> gone, expMust |-> Ev.expMust])>>)
  /\ FALSE /\ UNCHANGED vars /\ UNCHANGED tvars

TReset ==
  /\ l <= Len(Log) /\ Ev.e = "Reset" /\ l > 1
  /\ \E p \in PolicyChoices(Ev.cfg.policy) :
        /\ cfg' = [MkCfg(Ev.cfg) EXCEPT !.policy = p] /\ devs' = devs \cup PrunedDev(p)
  /\ cst' = [s \in Slot |-> "absent"] /\ dying' = [s \in Slot |-> FALSE]
  /\ uid' = [s \in Slot |-> 0] /\ uname' = [s \in Slot |-> <<>>] /\ everNames' = {}
  /\ queue' = <<>> /\ rules' = [s \in Slot |-> <<>>] /\ pend' = <<>> /\ mon' = [s \in Slot |-> <<>>]
  /\ fdx' = [cap |-> [s \in Slot |-> FALSE], held |-> [s \in Slot |-> <<>>]]
  /\ act' = NoAct
  /\ out' = <<>>
  /\ l' = l + 1 /\ pos' = ZeroPos /\ cnt' = ZeroPos /\ sdone' = {} /\ gone' = {} /\ kicked' = {} /\ skipd' = {} /\ carry' = NoCarry /\ qfull' = {}

\* end of a scenario: every client closed, the driver waited for the daemon's descriptor table to settle
\* (a start still under way keeps the channel to its helper process open)
TFinal == /\ l <= Len(Log) /\ Ev.e = "Final" /\ (Ev.fdleak = 0 \/ act.pend # <<>>) /\ l' = l + 1
          \* the start log written by the started processes themselves: never more starts than the specification
          \* counts (fewer are possible here: the driver's stand-in may take the name before the forked helper has
          \* executed the program, and the daemon then reaps the helper)
          /\ \A i \in 1..Len(Ev.stublog) : Ev.stublog[i].k <= SpawnCount(Ev.stublog[i].n)
          \* with every connection still open and nobody asking anything the bus sleeps: it does not burn processor
          \* time (more than a quarter of a window of silence would be a busy loop -- generous on a loaded machine)
          /\ "idlecpu" \in DOMAIN Ev => Ev.idlecpu * 4 <= Ev.idlewin
          /\ UNCHANGED vars /\ UNCHANGED <<pos, cnt, sdone, gone, kicked, devs, skipd, carry, qfull>>

TFirst == l = 1 /\ l' = 2 /\ UNCHANGED vars /\ UNCHANGED <<pos, cnt, sdone, gone, kicked, devs, skipd, carry, qfull>>

TNext == \/ TFirst \/ TReset \/ TEnd \/ TEndDebug \/ TFinal
         \/ \E s \in Slot : TStep(s) \/ TSync(s) \/ TDrop(s) \/ TSkip(s)
         \/ \E i \in 1..Len(pend) : TExpire(i)
         \/ \E n \in ActNamesPending : TActFail(n)

TSpec == TInit /\ [][TNext]_<<vars, tvars>>

\* progress register: furthest point reached = line * 1000 + ops applied in it
RECURSIVE SumPos(_)
SumPos(T) == IF T = {} THEN 0 ELSE LET x == CHOOSE y \in T : TRUE IN pos[x] + SumPos(T \ {x})
Here == l * 1000 + (IF IsRound THEN SumPos(Slot) + Cardinality(sdone) ELSE 0)
Progress == /\ TLCSet(1, IF TLCGet(1) > Here THEN TLCGet(1) ELSE Here)
            /\ (l > Len(Log) /\ devs # {} => PrintT(<<"DEVS_USED", devs>>))
Accepted == IF TLCGet(1) >= (Len(Log) + 1) * 1000 THEN TRUE
            ELSE /\ PrintT(<<"REJECTED_AT", TLCGet(1) \div 1000, TLCGet(1) % 1000, "of", Len(Log)>>) /\ FALSE
=============================================================================

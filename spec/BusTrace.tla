------------------------------ MODULE BusTrace ------------------------------
(* Trace validation: is the recorded behaviour of the real dbus-daemon a      *)
(* behaviour of Bus.tla?  The log (NDJSON, env TRACE) holds Reset lines (new   *)
(* daemon + configuration) and Round lines: what each client wrote (in its own *)
(* order), which clients then did the closing barrier ping, and everything     *)
(* each client read.  TLC chooses the order in which the daemon served the     *)
(* clients and where the silent steps (disconnect processing, expiry) fall.    *)
EXTENDS Bus, Json, IOUtils

Log == ndJsonDeserialize(IOEnv.TRACE)

VARIABLES l,      \* index of the current log line
          pos,    \* [Slot -> number of ops of the current round already applied]
          cnt,    \* [Slot -> number of observed messages of the current round already explained]
          sdone,  \* slots whose closing barrier ping was applied
          gone,   \* slots whose client closed (nothing more is read on them)
          kicked, \* slots the daemon closed (expected: the client saw EOF)
          devs    \* names of the known-defect deviations that were needed to explain the trace

tvars == <<l, pos, cnt, sdone, gone, kicked, devs>>
\* deviations tolerated in this run: one JSON object {"dev": name} per line of the file named by VERIF_DEVS
DevSet == LET d == ndJsonDeserialize(IOEnv.VERIF_DEVS) IN {d[i].dev : i \in 1..Len(d)}
Plain(A) == A /\ UNCHANGED devs
Dev(name, A) == name \in DevSet /\ A /\ devs' = devs \cup {name}
Ev == Log[l]
IsRound == l <= Len(Log) /\ Ev.e = "Round"

MkCfg(c) == [maxNames |-> c.maxNames, maxMatch |-> c.maxMatch, maxReplies |-> c.maxReplies,
             maxCompleted |-> c.maxCompleted, maxPerUser |-> c.maxPerUser, busUid |-> c.busUid,
             policy |-> c.policy]

ZeroPos == [s \in Slot |-> 0]

TInit ==
  /\ l = 1 /\ Len(Log) >= 1 /\ Log[1].e = "Reset"
  /\ cfg = MkCfg(Log[1].cfg) /\ Init0
  /\ pos = ZeroPos /\ cnt = ZeroPos /\ sdone = {} /\ gone = {} /\ kicked = {} /\ devs = {}
  /\ TLCSet(1, 0)

\* ---- comparing an observed message with an expected one
ArgsEq(oa, ea) == /\ Len(oa) = Len(ea)
                  /\ \A i \in 1..Len(ea) : oa[i].t = ea[i].t /\ oa[i].v = ea[i].v
SetOf(sq) == {sq[i] : i \in 1..Len(sq)}
MsgMatch(o, e) ==
  /\ o.ty = e.ty /\ o.snd = e.snd /\ o.dst = e.dst /\ o.rs = e.rs
  /\ (IF e.ser = 0 THEN o.ser # 0 ELSE o.ser = e.ser)
  /\ o.path = e.path /\ o.ifc = e.ifc /\ o.mem = e.mem /\ o.err = e.err
  /\ o.unk = <<>> /\ o.ci = FALSE /\ o.nfd = e.nfd
  /\ CASE e.cmp = "exact" -> o.sig = e.sig /\ ArgsEq(o.args, e.args) /\ (e.org # 0 => o.fl = e.fl)
       [] e.cmp = "set1" -> /\ o.sig = e.sig /\ Len(o.args) = 1
                            /\ Len(o.args[1].v) = Len(e.args[1].v) /\ SetOf(o.args[1].v) = SetOf(e.args[1].v)
       [] e.cmp = "errtext" -> TRUE
       [] e.cmp = "local" -> TRUE

IsReply(m) == m.ty \in {2, 3} /\ m.org = 0
\* one action's messages for one client: any order, except that the reply to the client's own request
\* (the last staged reply) comes last
RECURSIVE BagMatch(_,_)
BagMatch(os, es) ==
  IF es = <<>> THEN os = <<>>
  ELSE \E i \in 1..Len(os) : MsgMatch(os[i], es[1]) /\ BagMatch(RemoveAt(os, i), Tail(es))
GroupMatch(os, es) ==
  /\ Len(os) = Len(es)
  /\ IF es # <<>> /\ IsReply(es[Len(es)])
     THEN /\ MsgMatch(os[Len(os)], es[Len(es)])
          /\ BagMatch(SubSeq(os, 1, Len(os) - 1), SubSeq(es, 1, Len(es) - 1))
     ELSE BagMatch(os, es)

GroupFor(o, r) == LET sel == SelectSeq(o, LAMBDA e : e.to = r) IN [i \in 1..Len(sel) |-> sel[i].m]

\* after a Bus action: every client that is still reading must have observed exactly what was staged for it
Debug == IOEnv.VERIF_DEBUG = "1"
ExplainOK(g) ==
  \A r \in Slot : r \notin g =>
        LET grp == GroupFor(out', r) IN
        /\ cnt[r] + Len(grp) <= Len(Ev.obs[r])
        /\ GroupMatch(SubSeq(Ev.obs[r], cnt[r] + 1, cnt[r] + Len(grp)), grp)
Explain(g) ==
  /\ \/ ExplainOK(g)
     \/ /\ Debug
        /\ PrintT(<<"MISMATCH", ToJson([l |-> l, pos |-> pos, cnt |-> cnt, out |-> out'])>>)
        /\ FALSE
  /\ cnt' = [r \in Slot |-> IF r \in g THEN cnt[r] ELSE cnt[r] + Len(GroupFor(out', r))]

\* ---- abstract message of a "send" op
OpMsg(op) == Msg(op.ty, <<>>, op.dst, op.ser, op.rs, op.path, op.ifc, op.mem, op.err, op.sig, op.args, op.fl, 0, "exact")

Apply(s, op) ==
  CASE op.k = "connect" -> Plain(Connect(s, op.uid))
    [] op.k = "hello" -> Plain(Hello(s, op.ser, op.fl, op.got))
    [] op.k = "req" -> Plain(RequestName(s, op.ser, op.fl, op.n, op.f))
    [] op.k = "rel" -> Plain(ReleaseName(s, op.ser, op.fl, op.n))
    [] op.k = "query" -> Plain(Query(s, op.ser, op.fl, op.q, op.n))
    [] op.k = "ping" -> Plain(Query(s, op.ser, 0, "ping", <<>>))
    [] op.k = "addmatch" -> Plain(AddMatch(s, op.ser, op.fl, op.rule))
    [] op.k = "rmmatch" -> \/ Plain(RemoveMatch(s, op.ser, op.fl, op.rule))
                           \/ Dev("RemoveMatchAckThenError", Dev_RemoveMatchAckThenError(s, op.ser, op.fl, op.rule))
    [] op.k = "send" -> \/ Plain(IF op.dst = BUS THEN DriverOther(s, OpMsg(op)) ELSE Send(s, OpMsg(op)))
                        \/ Dev("LocalReplyUnstamped", Dev_LocalReplyUnstamped(s, OpMsg(op), op.fsnd))
    [] op.k = "close" -> Plain(PingAndClose(s, op.ser))

TStep(s) ==
  /\ IsRound /\ pos[s] < Len(Ev.ops[s])
  /\ LET op == Ev.ops[s][pos[s] + 1] IN
     /\ Apply(s, op)
     /\ pos' = [pos EXCEPT ![s] = @ + 1]
     /\ gone' = IF op.k = "close" THEN gone \cup {s} ELSE IF op.k = "connect" THEN gone \ {s} ELSE gone
     /\ kicked' = (IF op.k = "connect" THEN kicked \ {s} ELSE kicked)
                  \cup {x \in Slot : dying'[x] /\ ~dying[x] /\ ~(x = s /\ op.k = "close")}
     /\ Explain(gone')
  /\ UNCHANGED <<l, sdone>>

AllOpsDone == \A s \in Slot : pos[s] = Len(Ev.ops[s])
SyncSlots == {Ev.sync[i].s : i \in 1..Len(Ev.sync)}
SyncSer(s) == (CHOOSE i \in 1..Len(Ev.sync) : Ev.sync[i].s = s)
TSync(s) ==
  /\ IsRound /\ AllOpsDone /\ s \in SyncSlots \ sdone
  /\ Query(s, Ev.sync[SyncSer(s)].ser, 0, "ping", <<>>)
  /\ sdone' = sdone \cup {s}
  /\ Explain(gone)
  /\ UNCHANGED <<l, pos, gone, kicked, devs>>

TDrop(s) ==
  /\ IsRound
  /\ \E order \in [1..Cardinality(NamesOf(queue, s)) -> NamesOf(queue, s)] : Drop(s, order)
  /\ Explain(gone)
  /\ UNCHANGED <<l, pos, sdone, gone, kicked, devs>>

TExpire(i) ==
  /\ IsRound /\ i \in 1..Len(pend) /\ (pend[i].callee = NoSlot \/ Ev.mayExpire)
  /\ ExpirePending(i)
  /\ Explain(gone)
  /\ UNCHANGED <<l, pos, sdone, gone, kicked, devs>>

\* end of the round: everything read has been explained, every EOF seen by a client is one the model predicts
EofSet == {Ev.eof[i] : i \in 1..Len(Ev.eof)}
TEnd ==
  /\ IsRound /\ AllOpsDone /\ sdone = SyncSlots
  /\ \A r \in Slot : r \notin gone => cnt[r] = Len(Ev.obs[r])
  /\ EofSet = kicked
  /\ l' = l + 1 /\ pos' = ZeroPos /\ cnt' = ZeroPos /\ sdone' = {}
  /\ kicked' = {}
  /\ gone' = gone \cup kicked
  /\ UNCHANGED devs
  /\ UNCHANGED vars

TReset ==
  /\ l <= Len(Log) /\ Ev.e = "Reset" /\ l > 1
  /\ cfg' = MkCfg(Ev.cfg)
  /\ cst' = [s \in Slot |-> "absent"] /\ dying' = [s \in Slot |-> FALSE]
  /\ uid' = [s \in Slot |-> 0] /\ uname' = [s \in Slot |-> <<>>] /\ everNames' = {}
  /\ queue' = <<>> /\ rules' = [s \in Slot |-> <<>>] /\ pend' = <<>> /\ mon' = [s \in Slot |-> <<>>]
  /\ out' = <<>>
  /\ l' = l + 1 /\ pos' = ZeroPos /\ cnt' = ZeroPos /\ sdone' = {} /\ gone' = {} /\ kicked' = {} /\ UNCHANGED devs

TFirst == l = 1 /\ l' = 2 /\ UNCHANGED vars /\ UNCHANGED <<pos, cnt, sdone, gone, kicked, devs>>

TNext == \/ TFirst \/ TReset \/ TEnd
         \/ \E s \in Slot : TStep(s) \/ TSync(s) \/ TDrop(s)
         \/ \E i \in 1..3 : TExpire(i)

TSpec == TInit /\ [][TNext]_<<vars, tvars>>

\* progress register: furthest point reached = line * 1000 + ops applied in it
RECURSIVE SumPos(_)
SumPos(T) == IF T = {} THEN 0 ELSE LET x == CHOOSE y \in T : TRUE IN pos[x] + SumPos(T \ {x})
Here == l * 1000 + (IF IsRound THEN SumPos(Slot) + Cardinality(sdone) ELSE 0)
Progress == /\ TLCSet(1, IF TLCGet(1) > Here THEN TLCGet(1) ELSE Here)
            /\ (l > Len(Log) /\ devs # {} => PrintT(<<"DEVS_USED", devs>>))
Accepted == IF TLCGet(1) >= (Len(Log) + 1) * 1000 THEN TRUE
            ELSE /\ PrintT(<<"REJECTED_AT", TLCGet(1) \div 1000, TLCGet(1) % 1000, "of", Len(Log)>>) /\ FALSE
=============================================================================

SPECIFICATION MCSpec
CONSTANTS
  Slot = {1,2}
  NameIds = {1}
  FlagSet = {0}
  MaxUnique = 3
  Uids = {0}
  Ops = {"names", "close", "match", "send", "reload"}
  LimNames = 2
  LimMatch = 1
  LimReplies = 1
  LimCompleted = 2
  LimPerUser = 2
  SendTy = {1}
  SendSer = {1}
  SendRs = {0}
  SendFl = {0}
VIEW View
INVARIANTS TypeOK QueueNoDup OnlyActiveQueued ReservedNamesNeverOwned UniqueNamesDistinct UniqueNamesRecorded SenderIsOrigin NoRulesForAbsent PendWellFormed AtMostOneCopy OnlyLiveRecipients ErrorXorDelivery
PROPERTIES GrowthOnlyBelowLimit ReloadTouchesOnlyCfg OwnerChangeSignalled UniqueNeverReused RefusalChangesNothing UnicastToOwnerOnly BroadcastOnlyToMatching SlotOnlyForDeliveredCall NoReplyOnlyOnExpiry
CHECK_DEADLOCK FALSE

---- MODULE SyntaxSelf ----
EXTENDS Syntax
VARIABLE x
Init == x = 0
Next == x' = x
====

SPECIFICATION MCSpec
CONSTANTS
  Slot = {1,2}
  NameIds = {1,2}
  FlagSet = {0}
  MaxUnique = 3
  Uids = {0}
  Ops = {"names", "close", "match", "send"}
  LimNames = 2
  LimMatch = 1
  LimReplies = 1
  LimCompleted = 2
  LimPerUser = 2
  SendTy = {1}
  SendSer = {1,2}
  SendRs = {0}
  SendFl = {0}
VIEW View
INVARIANTS TypeOK QueueNoDup OnlyActiveQueued ReservedNamesNeverOwned NamesWithinLimit UniqueNamesDistinct UniqueNamesRecorded SenderIsOrigin RulesWithinLimit PendWithinLimit NoRulesForAbsent PendWellFormed AtMostOneCopy OnlyLiveRecipients ErrorXorDelivery CompletedWithinLimit PerUserWithinLimit
PROPERTIES OwnerChangeSignalled UniqueNeverReused RefusalChangesNothing UnicastToOwnerOnly BroadcastOnlyToMatching SlotOnlyForDeliveredCall NoReplyOnlyOnExpiry
CHECK_DEADLOCK FALSE

------------------------------- MODULE Loader -------------------------------
(* The message loader as a state machine over an abstract stream: a stream is  *)
(* a sequence of frames, each with a length (>= 16, the fixed header tells the *)
(* length) and a validity bit.  Feed(k) appends the next k bytes; the loader   *)
(* then frames as long as it can.  Properties: what has been produced after p  *)
(* bytes depends only on p (not on the chunking), and nothing is produced      *)
(* after corruption was detected.                                              *)
EXTENDS Naturals, Sequences, FiniteSets
CONSTANTS Streams          \* set of streams: Seq of [len, valid, hdrok]
VARIABLES stream, fed, buffered, nextFrame, out, corrupt
vars == <<stream, fed, buffered, nextFrame, out, corrupt>>

RECURSIVE Total(_,_)
Total(s, i) == IF i > Len(s) THEN 0 ELSE s[i].len + Total(s, i + 1)

\* the whole-buffer function: frames fully contained in the first p bytes, stopping at the first invalid one.
\* A frame whose fixed header is already bad (hdrok = FALSE) is detected as soon as its first 16 bytes are there.
RECURSIVE FrameUpTo(_,_,_,_)
FrameUpTo(s, p, i, start) ==
  IF i > Len(s) THEN [out |-> 0, corrupt |-> FALSE]
  ELSE IF p - start < 16 THEN [out |-> 0, corrupt |-> FALSE]
  ELSE IF ~s[i].hdrok THEN [out |-> 0, corrupt |-> TRUE]
  ELSE IF p - start < s[i].len THEN [out |-> 0, corrupt |-> FALSE]
  ELSE IF ~s[i].valid THEN [out |-> 0, corrupt |-> TRUE]
  ELSE LET r == FrameUpTo(s, p, i + 1, start + s[i].len) IN [out |-> r.out + 1, corrupt |-> r.corrupt]

Init == /\ stream \in Streams /\ fed = 0 /\ buffered = 0 /\ nextFrame = 1 /\ out = 0 /\ corrupt = FALSE

\* the loader's own loop after new bytes arrived (dbus-message.c: _dbus_message_loader_queue_messages)
RECURSIVE Drain(_,_,_,_)
Drain(buf, nf, o, c) ==
  IF c \/ nf > Len(stream) \/ buf < 16 THEN [buf |-> buf, nf |-> nf, out |-> o, corrupt |-> c]
  ELSE IF ~stream[nf].hdrok THEN [buf |-> buf, nf |-> nf, out |-> o, corrupt |-> TRUE]
  ELSE IF buf < stream[nf].len THEN [buf |-> buf, nf |-> nf, out |-> o, corrupt |-> c]
  ELSE IF ~stream[nf].valid THEN [buf |-> buf, nf |-> nf, out |-> o, corrupt |-> TRUE]
  ELSE Drain(buf - stream[nf].len, nf + 1, o + 1, c)

Feed(k) ==
  /\ k >= 1 /\ fed + k <= Total(stream, 1)
  /\ LET d == Drain(buffered + k, nextFrame, out, corrupt) IN
     /\ buffered' = d.buf /\ nextFrame' = d.nf /\ out' = d.out /\ corrupt' = d.corrupt
  /\ fed' = fed + k /\ UNCHANGED stream

Next == \E k \in 1..Total(stream, 1) : Feed(k)
Spec == Init /\ [][Next]_vars

F(n, v, h) == [len |-> n, valid |-> v, hdrok |-> h]
StreamSet == { <<F(16, TRUE, TRUE), F(24, TRUE, TRUE), F(17, FALSE, TRUE), F(20, TRUE, TRUE)>>,
               <<F(19, TRUE, TRUE), F(16, FALSE, FALSE), F(16, TRUE, TRUE)>>,
               <<F(33, TRUE, TRUE), F(16, TRUE, TRUE), F(18, TRUE, TRUE)>>,
               <<F(40, FALSE, FALSE)>>, <<F(16, TRUE, TRUE)>> }

PrefixDetermined == LET f == FrameUpTo(stream, fed, 1, 0) IN out = f.out /\ corrupt = f.corrupt
NoOutputAfterCorruption == [][corrupt => out' = out /\ corrupt']_vars
=============================================================================

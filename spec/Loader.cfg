SPECIFICATION Spec
CONSTANT Streams <- StreamSet
INVARIANT PrefixDetermined
PROPERTY NoOutputAfterCorruption
CHECK_DEADLOCK FALSE

------------------------------ MODULE PolicyOps ------------------------------
(* Security policy of the bus: doc/dbus-daemon.1.xml.in, element <policy>.     *)
(*                                                                             *)
(* policy == [kind |-> "allow-all"]                                             *)
(*         | [kind |-> "rules", prune |-> BOOLEAN,                             *)
(*            ctx |-> Seq of [c, id, rules]   policy elements in file order,   *)
(*                    c \in {"default","group","user","console_f","console_t", *)
(*                           "mandatory"}, id = gid / uid for group / user     *)
(*            groupsOf |-> Seq of [uid, gids]]                                  *)
(* rule == [k |-> "send"|"recv"|"own", allow, ty (0 = any), path, ifc, mem, err,*)
(*          peer (send_destination / receive_sender, <<>> = any), prefix,      *)
(*          bcast (0 any, 1 true, 2 false), rr (requested_reply), eav,         *)
(*          minf, maxf (-1 = unlimited), name (own / own_prefix, <<>> = "*"),  *)
(*          nprefix]                                                           *)
(* "Rules are considered in context order (default, group, user, console,      *)
(*  mandatory); the last matching rule decides; nothing is allowed by default."*)
EXTENDS Naturals, Integers, Sequences, FiniteSets

AllowAllPolicy == [kind |-> "allow-all"]
cDotP == 46

RECURSIVE Cat(_,_)
Cat(ss, i) == IF i > Len(ss) THEN <<>> ELSE ss[i] \o Cat(ss, i + 1)

GroupsOf(policy, u) == IF \E i \in 1..Len(policy.groupsOf) : policy.groupsOf[i].uid = u
                       THEN policy.groupsOf[CHOOSE i \in 1..Len(policy.groupsOf) : policy.groupsOf[i].uid = u].gids
                       ELSE <<>>

CtxRules(policy, c, id) ==
  Cat([i \in 1..Len(policy.ctx) |-> IF policy.ctx[i].c = c /\ (c \in {"default", "mandatory", "console_f", "console_t"} \/ policy.ctx[i].id = id)
                                     THEN policy.ctx[i].rules ELSE <<>>], 1)

\* the rule list of one connection, before any "optimisation"
ClientRulesFull(policy, cred) ==
  LET gs == GroupsOf(policy, cred.uid) IN
  CtxRules(policy, "default", 0)
  \o Cat([i \in 1..Len(gs) |-> CtxRules(policy, "group", gs[i])], 1)
  \o CtxRules(policy, "user", cred.uid)
  \o CtxRules(policy, "console_f", 0)
  \o CtxRules(policy, "mandatory", 0)

\* KNOWN DEFECT (deviation PolicyPruning): bus_client_policy_optimize deletes every earlier rule of the same kind
\* when it meets a rule without type/path/interface/member/error/peer -- although send_broadcast, the fd range,
\* requested_reply and eavesdrop still restrict what such a rule matches.
CatchAll(r) == IF r.k = "own" THEN r.name = <<>> /\ ~r.nprefix
               ELSE r.ty = 0 /\ r.path = <<>> /\ r.ifc = <<>> /\ r.mem = <<>> /\ r.err = <<>> /\ r.peer = <<>>
Pruned(rs) == LET keep(i) == ~\E j \in (i+1)..Len(rs) : rs[j].k = rs[i].k /\ CatchAll(rs[j]) IN
              LET idx == {i \in 1..Len(rs) : keep(i)} IN
              LET RECURSIVE build(_)
                  build(i) == IF i > Len(rs) THEN <<>> ELSE (IF i \in idx THEN <<rs[i]>> ELSE <<>>) \o build(i + 1) IN
              build(1)
ClientRules(policy, cred) == IF policy.prune THEN Pruned(ClientRulesFull(policy, cred)) ELSE ClientRulesFull(policy, cred)

StartsWithWords(a, p) == /\ Len(a) >= Len(p) /\ SubSeq(a, 1, Len(p)) = p
                         /\ (Len(a) = Len(p) \/ a[Len(p) + 1] = cDotP)

FieldOk(rv, mv) == rv = <<>> \/ mv = <<>> \/ mv = rv          \* path, member, error: absent in the message = matches
IfcOk(r, m) == r.ifc = <<>> \/ (IF m.ifc = <<>> THEN ~r.allow ELSE m.ifc = r.ifc)
ReplyOk(r, m, requested) ==
  m.rs = 0 \/ ( /\ ~(~requested /\ r.allow /\ r.rr /\ ~r.eav)
               /\ ~(requested /\ ~r.allow /\ ~r.rr) )
FdsOk(r, m) == (r.minf > 0 \/ r.maxf # -1) => (m.nfd >= r.minf /\ (r.maxf = -1 \/ m.nfd <= r.maxf))

SendMatches(r, m, requested, rcptKnown, rcptNames) ==
  /\ r.k = "send"
  /\ (r.ty # 0 => m.ty = r.ty)
  /\ ReplyOk(r, m, requested)
  /\ FieldOk(r.path, m.path) /\ IfcOk(r, m) /\ FieldOk(r.mem, m.mem) /\ FieldOk(r.err, m.err)
  /\ (r.bcast # 0 => IF m.dst = <<>> /\ m.ty = 4 THEN r.bcast # 2 ELSE r.bcast # 1)
  /\ (r.peer # <<>> /\ ~r.prefix => IF rcptKnown THEN r.peer \in rcptNames ELSE m.dst = r.peer)
  /\ (r.peer # <<>> /\ r.prefix => IF rcptKnown THEN \E n \in rcptNames : StartsWithWords(n, r.peer)
                                   ELSE m.dst # <<>> /\ StartsWithWords(m.dst, r.peer))
  /\ FdsOk(r, m)

RecvMatches(r, m, requested, sndNames, eavesdropping) ==
  /\ r.k = "recv"
  /\ (r.ty # 0 => m.ty = r.ty)
  /\ ~(eavesdropping /\ r.allow /\ ~r.eav)
  /\ ~(~eavesdropping /\ ~r.allow /\ r.eav)
  /\ ReplyOk(r, m, requested)
  /\ FieldOk(r.path, m.path) /\ IfcOk(r, m) /\ FieldOk(r.mem, m.mem) /\ FieldOk(r.err, m.err)
  /\ (r.peer # <<>> => r.peer \in sndNames)
  /\ FdsOk(r, m)

OwnMatches(r, n) == /\ r.k = "own"
                    /\ (IF r.nprefix THEN StartsWithWords(n, r.name) ELSE (r.name = <<>> \/ r.name = n))

\* last matching rule decides, default deny
CanSend(policy, cred, m, requested, rcptKnown, rcptNames) ==
  IF policy.kind = "allow-all" THEN TRUE
  ELSE LET rs == ClientRules(policy, cred)
           RECURSIVE go(_,_)
           go(i, acc) == IF i > Len(rs) THEN acc
                         ELSE go(i + 1, IF SendMatches(rs[i], m, requested, rcptKnown, rcptNames) THEN rs[i].allow ELSE acc) IN
       go(1, FALSE)

CanReceive(policy, cred, m, requested, sndNames, eavesdropping) ==
  IF policy.kind = "allow-all" THEN TRUE
  ELSE LET rs == ClientRules(policy, cred)
           RECURSIVE go(_,_)
           go(i, acc) == IF i > Len(rs) THEN acc
                         ELSE go(i + 1, IF RecvMatches(rs[i], m, requested, sndNames, eavesdropping) THEN rs[i].allow ELSE acc) IN
       go(1, FALSE)

CanOwn(policy, cred, n) ==
  IF policy.kind = "allow-all" THEN TRUE
  ELSE LET rs == ClientRules(policy, cred)
           RECURSIVE go(_,_)
           go(i, acc) == IF i > Len(rs) THEN acc ELSE go(i + 1, IF OwnMatches(rs[i], n) THEN rs[i].allow ELSE acc) IN
       go(1, FALSE)
=============================================================================

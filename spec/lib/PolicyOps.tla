------------------------------ MODULE PolicyOps ------------------------------
(* Security policy of the bus (doc/dbus-daemon.1.xml.in, <policy> element).   *)
(* STUB for the first increment: everything allowed.                           *)
EXTENDS Naturals, Sequences, FiniteSets
AllowAllPolicy == [kind |-> "allow-all"]
\* may the connection with credential `u` send m (requested = it is a requested reply) to a recipient that
\* (if rcptKnown) holds or is queued for the names rcptNames
CanSend(policy, u, m, requested, rcptKnown, rcptNames) == TRUE
\* may the connection with credential `u` receive m from a sender holding sndNames
CanReceive(policy, u, m, requested, sndNames, eavesdropping) == TRUE
CanOwn(policy, u, n) == TRUE
=============================================================================

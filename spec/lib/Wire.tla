-------------------------------- MODULE Wire --------------------------------
(* The D-Bus wire format (doc/dbus-specification.xml, "Message Protocol" and   *)
(* "Marshaling"): which byte strings are well-formed messages, and what they   *)
(* decode to.  Written from the specification text; 0-based offsets as there.  *)
(* Values decode to the canonical form the conformance harness prints:         *)
(*   fixed-size numbers  [t, v |-> bytes, least significant first]             *)
(*   s / o / g           [t, v |-> bytes]                                      *)
(*   variant             [t |-> 118, s |-> signature, v |-> value]             *)
(*   array               [t |-> 97, es |-> element signature, n, v |-> Seq]    *)
(*   struct / dict entry [t |-> 40 / 123, v |-> Seq]                           *)
EXTENDS Naturals, Integers, Sequences, FiniteSets, Syntax, Strs

MaxArrayLen == 67108864          \* 2^26
MaxMsgLen == 134217728           \* 2^27
MaxTotalDepth == 64

B(b, p) == b[p + 1]
Pad(p, a) == (a - (p % a)) % a
\* 32-bit word at p; words with the top 5 bits set in the most significant byte cannot be a valid length
\* (>= 2^27) and would overflow TLC's integers, so they are reported through Huge.
Lo27(x) == x % 8
U32(b, p, le) == IF le THEN B(b,p) + 256*B(b,p+1) + 65536*B(b,p+2) + 16777216*Lo27(B(b,p+3))
                       ELSE B(b,p+3) + 256*B(b,p+2) + 65536*B(b,p+1) + 16777216*Lo27(B(b,p))
Huge(b, p, le) == IF le THEN B(b,p+3) >= 8 ELSE B(b,p) >= 8
\* the n bytes at p, least significant first
LE(b, p, n, le) == [k \in 1..n |-> IF le THEN B(b, p + k - 1) ELSE B(b, p + n - k)]
Slice(b, p, n) == [k \in 1..n |-> B(b, p + k - 1)]
IsZero4(b, p) == B(b,p) = 0 /\ B(b,p+1) = 0 /\ B(b,p+2) = 0 /\ B(b,p+3) = 0

AlignOf(c) == CASE c \in {cY, cG, cV} -> 1
                [] c \in {cN, cQ} -> 2
                [] c \in {cB, cI, cU, cH, cS, cO, cA} -> 4
                [] OTHER -> 8
FixedSize(c) == CASE c = cY -> 1 [] c \in {cN, cQ} -> 2 [] c \in {cB, cI, cU, cH} -> 4 [] c \in {cX, cT, cD} -> 8 [] OTHER -> 0

RECURSIVE ZeroPad(_,_,_)
ZeroPad(b, p, n) == IF n = 0 THEN TRUE ELSE B(b, p) = 0 /\ ZeroPad(b, p + 1, n - 1)

\* index just after the single complete type at sig[i] (sig known to be valid)
RECURSIVE SigEnd(_,_)
RECURSIVE CloseOf(_,_,_)
SigEnd(sig, i) == LET c == sig[i] IN
   IF c = cA THEN SigEnd(sig, i + 1)
   ELSE IF c = cLP THEN CloseOf(sig, i + 1, cRP)
   ELSE IF c = cLB THEN CloseOf(sig, i + 1, cRB)
   ELSE i + 1
CloseOf(sig, i, close) == IF sig[i] = close THEN i + 1 ELSE CloseOf(sig, SigEnd(sig, i), close)

Fail == [ok |-> FALSE, p |-> 0, v |-> <<>>]
Ok(p, v) == [ok |-> TRUE, p |-> p, v |-> v]

RECURSIVE DecVal(_,_,_,_,_,_,_)
RECURSIVE DecSeq(_,_,_,_,_,_,_,_,_)
RECURSIVE DecArr(_,_,_,_,_,_,_,_)

\* one value of the type at sig[i], starting at offset p, not reading at or beyond lim
DecVal(b, lim, sig, i, p, le, depth) ==
  LET c == sig[i] IN
  IF FixedSize(c) > 0 THEN
      LET a == Pad(p, AlignOf(c))  q == p + a  n == FixedSize(c) IN
      IF q + n > lim \/ ~ZeroPad(b, p, a) THEN Fail
      ELSE IF c = cB /\ ~(LE(b, q, 4, le) \in {<<0,0,0,0>>, <<1,0,0,0>>}) THEN Fail
      ELSE Ok(q + n, [t |-> c, v |-> LE(b, q, n, le)])
  ELSE IF c \in {cS, cO} THEN
      LET a == Pad(p, 4)  q == p + a IN
      IF q + 4 > lim \/ ~ZeroPad(b, p, a) \/ Huge(b, q, le) THEN Fail
      ELSE LET n == U32(b, q, le)  s == q + 4 IN
           IF s + n + 1 > lim THEN Fail
           ELSE IF B(b, s + n) # 0 THEN Fail
           ELSE LET txt == Slice(b, s, n) IN
                IF c = cS /\ ~Utf8Valid(txt) THEN Fail
                ELSE IF c = cO /\ ~PathValid(txt) THEN Fail
                ELSE Ok(s + n + 1, [t |-> c, v |-> txt])
  ELSE IF c = cG THEN
      IF p + 1 > lim THEN Fail
      ELSE LET n == B(b, p) IN
           IF p + 1 + n + 1 > lim THEN Fail
           ELSE IF B(b, p + 1 + n) # 0 THEN Fail
           ELSE LET txt == Slice(b, p + 1, n) IN
                IF ~SigValid(txt) THEN Fail ELSE Ok(p + n + 2, [t |-> c, v |-> txt])
  ELSE IF c = cA THEN
      LET a == Pad(p, 4)  q == p + a IN
      IF depth + 1 > MaxTotalDepth THEN Fail
      ELSE IF q + 4 > lim \/ ~ZeroPad(b, p, a) \/ Huge(b, q, le) THEN Fail
      ELSE LET n == U32(b, q, le)  s0 == q + 4  ec == sig[i + 1]  a2 == Pad(s0, AlignOf(ec))  s == s0 + a2
               esig == SubSeq(sig, i + 1, SigEnd(sig, i + 1) - 1) IN
           IF n > MaxArrayLen \/ s > lim THEN Fail
           ELSE IF ~ZeroPad(b, s0, a2) \/ s + n > lim THEN Fail
           ELSE LET r == DecArr(b, s + n, sig, i + 1, s, le, depth + 1, <<>>) IN
                IF ~r.ok THEN Fail
                ELSE Ok(s + n, [t |-> cA, es |-> esig, n |-> Len(r.v), v |-> r.v])
  ELSE IF c \in {cLP, cLB} THEN
      LET a == Pad(p, 8)  q == p + a  e == SigEnd(sig, i) IN
      IF depth + 1 > MaxTotalDepth THEN Fail
      ELSE IF q > lim \/ ~ZeroPad(b, p, a) THEN Fail
      ELSE LET r == DecSeq(b, lim, sig, i + 1, e - 1, q, le, depth + 1, <<>>) IN
           IF ~r.ok THEN Fail ELSE Ok(r.p, [t |-> c, v |-> r.v])
  ELSE IF c = cV THEN
      IF depth + 1 > MaxTotalDepth THEN Fail
      ELSE IF p + 1 > lim THEN Fail
      ELSE LET n == B(b, p) IN
           IF p + 1 + n + 1 > lim THEN Fail
           ELSE IF B(b, p + 1 + n) # 0 THEN Fail
           ELSE LET vs == Slice(b, p + 1, n)  q0 == p + n + 2 IN
                IF ~SingleSigValid(vs) THEN Fail
                ELSE LET r == DecVal(b, lim, vs, 1, q0, le, depth + 1) IN
                     IF ~r.ok THEN Fail ELSE Ok(r.p, [t |-> cV, s |-> vs, v |-> r.v])
  ELSE Fail

\* the complete types sig[i..j-1] one after the other
DecSeq(b, lim, sig, i, j, p, le, depth, acc) ==
  IF i >= j THEN Ok(p, acc)
  ELSE LET r == DecVal(b, lim, sig, i, p, le, depth) IN
       IF ~r.ok THEN Fail ELSE DecSeq(b, lim, sig, SigEnd(sig, i), j, r.p, le, depth, Append(acc, r.v))

\* array elements of the type at sig[ei] filling exactly [p, aend)
DecArr(b, aend, sig, ei, p, le, depth, acc) ==
  IF p = aend THEN Ok(p, acc)
  ELSE IF p > aend THEN Fail
  ELSE LET r == DecVal(b, aend, sig, ei, p, le, depth) IN
       IF ~r.ok THEN Fail ELSE DecArr(b, aend, sig, ei, r.p, le, depth, Append(acc, r.v))

\* a body: the bytes b are exactly the values of signature sig
BodyDec(b, sig, le) == LET r == DecSeq(b, Len(b), sig, 1, Len(sig) + 1, 0, le, 0, <<>>) IN
                       IF r.ok /\ r.p = Len(b) THEN r ELSE Fail

\* ------------------------------------------------------------------ header
HdrSig == <<cA, cLP, cY, cV, cRP>>      \* a(yv)
F_PATH == 1  F_IFC == 2  F_MEM == 3  F_ERR == 4  F_RS == 5  F_DST == 6  F_SND == 7  F_SIG == 8  F_FDS == 9  F_CI == 10
FieldType(code) == CASE code \in {F_PATH, F_CI} -> cO
                     [] code \in {F_IFC, F_MEM, F_ERR, F_DST, F_SND} -> cS
                     [] code \in {F_RS, F_FDS} -> cU
                     [] code = F_SIG -> cG
                     [] OTHER -> 0

FieldCode(f) == f.v[1].v[1]
FieldVar(f) == f.v[2]
FieldOkL(f, L) ==
  LET code == FieldCode(f)  var == FieldVar(f)  val == var.v.v IN
  IF code = 0 THEN FALSE
  ELSE IF code > 10 THEN TRUE
  ELSE /\ var.s = <<FieldType(code)>>
       /\ CASE code = F_PATH -> val # P_org_freedesktop_DBus_Local
            [] code = F_IFC -> InterfaceValid(val) /\ val # S_org_freedesktop_DBus_Local
            [] code = F_MEM -> MemberValid(val)
            [] code = F_ERR -> ErrorNameValid(val)
            [] code = F_DST -> BusNameValidL(val, L)
            [] code = F_SND -> BusNameValidL(val, L)
            [] code = F_RS -> val # <<0,0,0,0>>
            [] OTHER -> TRUE
HasField(fs, code) == \E k \in 1..Len(fs) : FieldCode(fs[k]) = code
NoDupFields(fs) == \A j, k \in 1..Len(fs) : j # k /\ FieldCode(fs[j]) <= 10 => FieldCode(fs[j]) # FieldCode(fs[k])
FieldVal(fs, code, default) == IF HasField(fs, code)
                               THEN FieldVar(fs[CHOOSE k \in 1..Len(fs) : FieldCode(fs[k]) = code]).v.v ELSE default
Mandatory(ty, fs) ==
  CASE ty = 1 -> HasField(fs, F_PATH) /\ HasField(fs, F_MEM)
    [] ty = 2 -> HasField(fs, F_RS)
    [] ty = 3 -> HasField(fs, F_ERR) /\ HasField(fs, F_RS)
    [] ty = 4 -> HasField(fs, F_PATH) /\ HasField(fs, F_IFC) /\ HasField(fs, F_MEM)
    [] OTHER -> TRUE

\* What the first 16 bytes say: [ok, le, flen, blen, total]; ok = FALSE when they cannot start a valid message
Fixed(b) ==
  LET le == B(b, 0) = 108 IN
  IF B(b, 0) \notin {108, 66} THEN [ok |-> FALSE, total |-> 0, le |-> TRUE, flen |-> 0, blen |-> 0]
  ELSE IF Huge(b, 4, le) \/ Huge(b, 12, le) THEN [ok |-> FALSE, total |-> 0, le |-> le, flen |-> 0, blen |-> 0]
  ELSE LET blen == U32(b, 4, le)  flen == U32(b, 12, le)  hl == 16 + flen + Pad(16 + flen, 8) IN
       \* (a field array over 2^26 bytes is refused when the header is decoded, see DecVal; the first 16 bytes
       \* alone only have to respect the total message limit)
       IF hl + blen > MaxMsgLen THEN [ok |-> FALSE, total |-> 0, le |-> le, flen |-> flen, blen |-> blen]
       ELSE [ok |-> TRUE, total |-> hl + blen, le |-> le, flen |-> flen, blen |-> blen]

\* b holds exactly one message (Len(b) = total length): [ok, m]
NoMsg == [ok |-> FALSE, m |-> <<>>]
\* L: tolerate the lenient unique names of the known defect (deviation LenientUniqueName) in DESTINATION / SENDER
MessageDecXL(b, nfds, strict, L) ==
  IF Len(b) < 16 THEN NoMsg
  ELSE LET fx == Fixed(b) IN
  IF ~fx.ok \/ fx.total # Len(b) THEN NoMsg
  ELSE LET le == fx.le  ty == B(b, 1)  hend == 16 + fx.flen  hl == hend + Pad(hend, 8) IN
  IF ty = 0 \/ B(b, 3) # 1 \/ IsZero4(b, 8) THEN NoMsg
  ELSE LET fr == DecVal(b, hend, HdrSig, 1, 12, le, 0) IN
  IF ~fr.ok \/ fr.p # hend \/ ~ZeroPad(b, hend, hl - hend) THEN NoMsg
  ELSE LET fs == fr.v.v IN
  IF ~(\A k \in 1..Len(fs) : FieldOkL(fs[k], L)) \/ ~NoDupFields(fs) \/ (strict /\ ~Mandatory(ty, fs)) THEN NoMsg
  ELSE LET sig == FieldVal(fs, F_SIG, <<>>)
           body == BodyDec(Slice(b, hl, fx.blen), sig, le)
           fdsv == FieldVal(fs, F_FDS, <<0,0,0,0>>) IN
  IF ~body.ok THEN NoMsg
  ELSE IF fdsv[2] # 0 \/ fdsv[3] # 0 \/ fdsv[4] # 0 \/ fdsv[1] > nfds THEN NoMsg
  ELSE [ok |-> TRUE,
        m |-> [ty |-> ty, fl |-> B(b, 2) % 8, ser |-> LE(b, 8, 4, le), rs |-> FieldVal(fs, F_RS, <<0,0,0,0>>),
               path |-> FieldVal(fs, F_PATH, <<>>), ifc |-> FieldVal(fs, F_IFC, <<>>), mem |-> FieldVal(fs, F_MEM, <<>>),
               err |-> FieldVal(fs, F_ERR, <<>>), dst |-> FieldVal(fs, F_DST, <<>>), snd |-> FieldVal(fs, F_SND, <<>>),
               ci |-> FieldVal(fs, F_CI, <<>>), sig |-> sig, body |-> body.v],
        unk |-> SelectSeq([k \in 1..Len(fs) |-> FieldCode(fs[k])], LAMBDA c : c > 10),
        mandatory |-> Mandatory(ty, fs), nfd |-> fdsv[1]]

MessageDecX(b, nfds, strict) == MessageDecXL(b, nfds, strict, FALSE)
FieldOk(f) == FieldOkL(f, FALSE)
MessageDecL(b, nfds, L) == LET d == MessageDecXL(b, nfds, TRUE, L) IN [ok |-> d.ok, m |-> d.m]
MessageDec(b, nfds) == MessageDecL(b, nfds, FALSE)
MessageValidL(b, nfds, L) == MessageDecL(b, nfds, L).ok
MessageValid(b, nfds) == MessageDec(b, nfds).ok

\* ------------------------------------------------------------------ framing of a stream
\* Frame(b): what a loader that has received the bytes b so far has produced: the serials (as byte tuples) of
\* the complete valid messages, in order, and whether the stream has been found corrupt.
RECURSIVE FrameFromL(_,_,_,_)
FrameFromL(b, p, acc, L) ==
  IF Len(b) - p < 16 THEN [out |-> acc, corrupt |-> FALSE, used |-> p]
  ELSE LET hd == Slice(b, p, 16)  fx == Fixed(hd) IN
       IF ~fx.ok THEN [out |-> acc, corrupt |-> TRUE, used |-> p]
       ELSE IF Len(b) - p < fx.total THEN [out |-> acc, corrupt |-> FALSE, used |-> p]
       ELSE LET one == Slice(b, p, fx.total)  d == MessageDecL(one, 0, L) IN
            IF ~d.ok THEN [out |-> acc, corrupt |-> TRUE, used |-> p]
            ELSE FrameFromL(b, p + fx.total, Append(acc, d.m.ser), L)
FrameFrom(b, p, acc) == FrameFromL(b, p, acc, FALSE)
FrameL(b, L) == FrameFromL(b, 0, <<>>, L)
Frame(b) == FrameL(b, FALSE)
=============================================================================

----------------------------- MODULE ObjectTreeOps ---------------------------
(* Object-path handler registration and dispatch of one connection            *)
(* (dbus_connection_register_object_path / _fallback, unregister, incoming    *)
(* method call, list_registered).  Paths are byte sequences.                  *)
EXTENDS Naturals, Sequences, FiniteSets, Strs
cSl == 47
Root == <<cSl>>
IsPrefix(a, p) == Len(a) <= Len(p) /\ SubSeq(p, 1, Len(a)) = a
\* a is a proper ancestor of p
IsAncestor(a, p) == a # p /\ (a = Root \/ (IsPrefix(a, p) /\ Len(p) > Len(a) /\ p[Len(a) + 1] = cSl))

\* reg: function from registered paths to [id, fb]
Occupied(reg, p) == p \in DOMAIN reg
Register(reg, p, id, fb) ==
  IF Occupied(reg, p) THEN [reg |-> reg, ok |-> FALSE, err |-> S_org_freedesktop_DBus_Error_ObjectPathInUse]
  ELSE [reg |-> [q \in DOMAIN reg \cup {p} |-> IF q = p THEN [id |-> id, fb |-> fb] ELSE reg[q]], ok |-> TRUE, err |-> <<>>]
Unregister(reg, p) == [q \in DOMAIN reg \ {p} |-> reg[q]]

\* fallback handlers above p, nearest first
RECURSIVE Sorted(_)
Sorted(S) == IF S = {} THEN <<>> ELSE LET x == CHOOSE y \in S : \A z \in S : Len(y) >= Len(z) IN <<x>> \o Sorted(S \ {x})
FallbacksAbove(reg, p) == Sorted({a \in DOMAIN reg : IsAncestor(a, p) /\ reg[a].fb})
Offer(reg, p) == (IF Occupied(reg, p) THEN <<reg[p].id>> ELSE <<>>)
                 \o [i \in 1..Len(FallbacksAbove(reg, p)) |-> reg[FallbacksAbove(reg, p)[i]].id]

\* H: the set of handler ids that claim the call.  Result: who was invoked (in order), who answered, or which error
KnownObject(reg, p) == \/ Occupied(reg, p)
                       \/ \E q \in DOMAIN reg : IsAncestor(p, q)
                       \/ \E a \in DOMAIN reg : IsAncestor(a, p) /\ reg[a].fb
Call(reg, p, H) ==
  LET o == Offer(reg, p)
      hit == {i \in 1..Len(o) : o[i] \in H} IN
  IF hit = {} THEN [invoked |-> o, by |-> 0,
                    err |-> IF KnownObject(reg, p) THEN S_org_freedesktop_DBus_Error_UnknownMethod
                            ELSE S_org_freedesktop_DBus_Error_UnknownObject]
  ELSE LET k == CHOOSE i \in hit : \A j \in hit : i <= j IN [invoked |-> SubSeq(o, 1, k), by |-> o[k], err |-> <<>>]

\* next path element of q below p
RECURSIVE UpTo(_,_)
UpTo(s, i) == IF i > Len(s) \/ s[i] = cSl THEN i - 1 ELSE UpTo(s, i + 1)
Below(p, q) == LET start == IF p = Root THEN 2 ELSE Len(p) + 2 IN SubSeq(q, start, UpTo(q, start))
Children(reg, p) == {Below(p, q) : q \in {x \in DOMAIN reg : IsAncestor(p, x)}}

=============================================================================

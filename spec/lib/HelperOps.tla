------------------------------ MODULE HelperOps ------------------------------
(* The activation helper's decision chain (bus/activation-helper.c) as a total function:
     bus name syntax -> service file lookup in the configured directories (first file that loads)
     -> Name / Exec / User keys -> command-line splitting (dbus/dbus-shell.c) -> exec.
   Service files are "desktop files" (bus/desktop-file.c); both parsers are transcribed over byte sequences.
   HelperOutcome(name, dirs) = [code, argv]: the helper's exit code when it refuses, or code 0 and the argument
   vector it executes. *)
EXTENDS Naturals, Integers, Sequences, FiniteSets, Syntax

LOCAL B(b, p) == b[p + 1]                  \* 0-based byte access
LOCAL Sub(b, p, q) == SubSeq(b, p + 1, q)  \* bytes [p, q)

\* ------------------------------------------------------------------ desktop files
\* end of the line that contains offset p: [e |-> offset of the terminator (or Len), n |-> its length (0, 1, 2)]
RECURSIVE FindEol(_, _)
FindEol(b, p) ==
  IF p >= Len(b) THEN [e |-> Len(b), n |-> 0]
  ELSE IF B(b, p) = 13 THEN [e |-> p, n |-> IF p + 1 < Len(b) /\ B(b, p + 1) = 10 THEN 2 ELSE 1]
  ELSE IF B(b, p) = 10 THEN [e |-> p, n |-> 1]
  ELSE FindEol(b, p + 1)
NextPos(b, eol) == IF eol.e = Len(b) THEN Len(b) ELSE eol.e + eol.n

KeyChar(c) == c = 45 \/ (c >= 48 /\ c <= 57) \/ (c >= 65 /\ c <= 90) \/ (c >= 97 /\ c <= 122)
\* blank up to the next "\n" (or a NUL byte, which ends the C string view)
RECURSIVE BlankLine(_, _)
BlankLine(b, p) ==
  IF p >= Len(b) THEN TRUE
  ELSE LET c == B(b, p) IN
       IF c = 0 \/ c = 10 THEN TRUE
       ELSE IF c \in {32, 9, 13, 12} THEN BlankLine(b, p + 1) ELSE FALSE

\* value text: \s \t \n \r \\ are the only escapes; a NUL byte, a trailing or unknown escape is an error
RECURSIVE Unescape(_, _, _, _)
Unescape(b, p, e, acc) ==
  IF p >= e THEN [ok |-> TRUE, v |-> acc]
  ELSE LET c == B(b, p) IN
       IF c = 0 THEN [ok |-> FALSE, v |-> <<>>]
       ELSE IF c = 92 THEN
            IF p + 1 >= e THEN [ok |-> FALSE, v |-> <<>>]
            ELSE LET d == B(b, p + 1) IN
                 IF d = 115 THEN Unescape(b, p + 2, e, Append(acc, 32))
                 ELSE IF d = 116 THEN Unescape(b, p + 2, e, Append(acc, 9))
                 ELSE IF d = 110 THEN Unescape(b, p + 2, e, Append(acc, 10))
                 ELSE IF d = 114 THEN Unescape(b, p + 2, e, Append(acc, 13))
                 ELSE IF d = 92 THEN Unescape(b, p + 2, e, Append(acc, 92))
                 ELSE [ok |-> FALSE, v |-> <<>>]
       ELSE Unescape(b, p + 1, e, Append(acc, c))

RECURSIVE SkipWhile(_, _, _, _)
SkipWhile(b, p, e, c) == IF p < e /\ B(b, p) = c THEN SkipWhile(b, p + 1, e, c) ELSE p
RECURSIVE KeyEnd(_, _, _)
KeyEnd(b, p, e) == IF p < e /\ KeyChar(B(b, p)) THEN KeyEnd(b, p + 1, e) ELSE p
SectionNameOK(s) == \A i \in 1..Len(s) : s[i] > 31 /\ s[i] < 127 /\ s[i] # 91 /\ s[i] # 93

\* secs: Seq of [name, lines: Seq of [k, v]]; a key=value line goes into the section opened last
AddLine(secs, k, v) == [secs EXCEPT ![Len(secs)].lines = Append(@, [k |-> k, v |-> v])]
Bad == [ok |-> FALSE, secs |-> <<>>]
RECURSIVE ParseFrom(_, _, _)
ParseFrom(b, p, secs) ==
  IF p >= Len(b) THEN [ok |-> TRUE, secs |-> secs]
  ELSE LET eol == FindEol(b, p)  le == eol.e  nx == NextPos(b, eol) IN
       IF B(b, p) = 91 THEN                                   \* [section]
            IF le - p <= 2 \/ B(b, le - 1) # 93 THEN Bad
            ELSE LET nm == Sub(b, p + 1, le - 1) IN
                 IF ~SectionNameOK(nm) THEN Bad
                 ELSE ParseFrom(b, nx, Append(secs, [name |-> nm, lines |-> <<>>]))
       ELSE IF BlankLine(b, p) \/ B(b, p) = 35 THEN ParseFrom(b, nx, secs)
       ELSE IF secs = <<>> THEN Bad                           \* key=value before any section
       ELSE LET ke == KeyEnd(b, p, le) IN
            IF ke = p THEN Bad                                \* empty key
            ELSE IF ke < le /\ B(b, ke) = 91 THEN ParseFrom(b, nx, secs)     \* Key[locale]=...: ignored
            ELSE LET q == SkipWhile(b, ke, le, 32) IN
                 IF q < le /\ B(b, q) # 61 THEN Bad
                 ELSE IF q = le THEN Bad                      \* no '='
                 ELSE LET vs == SkipWhile(b, q + 1, le, 32)
                          u == Unescape(b, vs, le, <<>>) IN
                      IF ~u.ok THEN Bad ELSE ParseFrom(b, nx, AddLine(secs, Sub(b, p, ke), u.v))
\* a file loads iff it is at most 128 KiB of valid UTF-8 that parses
ParseDesktop(b) == IF Len(b) > 131072 \/ ~Utf8Valid(b) THEN Bad ELSE ParseFrom(b, 0, <<>>)

\* first section of that name, first line with that key
GetKey(d, sec, key) ==
  IF ~\E i \in 1..Len(d.secs) : d.secs[i].name = sec THEN [ok |-> FALSE, v |-> <<>>]
  ELSE LET s == d.secs[CHOOSE i \in 1..Len(d.secs) : d.secs[i].name = sec /\ \A j \in 1..(i - 1) : d.secs[j].name # sec] IN
       IF ~\E k \in 1..Len(s.lines) : s.lines[k].k = key THEN [ok |-> FALSE, v |-> <<>>]
       ELSE [ok |-> TRUE, v |-> s.lines[CHOOSE k \in 1..Len(s.lines) :
                                          s.lines[k].k = key /\ \A j \in 1..(k - 1) : s.lines[j].k # key].v]

\* ------------------------------------------------------------------ command lines (dbus-shell.c)
\* the C code works on NUL-terminated strings: everything from the first NUL byte on is invisible
RECURSIVE CStr(_, _)
CStr(s, i) == IF i > Len(s) \/ s[i] = 0 THEN <<>> ELSE <<s[i]>> \o CStr(s, i + 1)

\* tokenize_command_line: state (cq = current quote char or 0, quoted = odd run of backslashes before, tok, toks)
RECURSIVE SkipComment(_, _)
SkipComment(s, p) == IF p < Len(s) /\ B(s, p) # 10 THEN SkipComment(s, p + 1) ELSE p
RECURSIVE Tok(_, _, _, _, _, _)
Tok(s, p, cq, quoted, tok, toks) ==
  IF p >= Len(s) THEN
      \* the last token is delimited unconditionally (it may be empty)
      IF cq # 0 THEN [ok |-> FALSE, toks |-> <<>>] ELSE [ok |-> TRUE, toks |-> Append(toks, tok)]
  ELSE LET c == B(s, p)
           q2 == IF c # 92 THEN FALSE ELSE ~quoted IN
       IF cq = 92 THEN
            Tok(s, p + 1, 0, q2, IF c = 10 THEN tok ELSE tok \o <<92, c>>, toks)
       ELSE IF cq = 35 THEN
            LET e == SkipComment(s, p) IN
            IF e >= Len(s) THEN Tok(s, Len(s), 0, FALSE, tok, toks)
            ELSE Tok(s, e + 1, 0, FALSE, tok, toks)          \* (the newline itself is stepped over)
       ELSE IF cq # 0 THEN
            Tok(s, p + 1, IF c = cq /\ ~(cq = 34 /\ quoted) THEN 0 ELSE cq, q2, Append(tok, c), toks)
       ELSE IF c = 10 THEN Tok(s, p + 1, 0, q2, <<>>, Append(toks, tok))
       ELSE IF c \in {32, 9} THEN
            IF tok # <<>> THEN Tok(s, p + 1, 0, q2, <<>>, Append(toks, tok)) ELSE Tok(s, p + 1, 0, q2, tok, toks)
       ELSE IF c \in {39, 34} THEN Tok(s, p + 1, c, q2, Append(tok, c), toks)
       ELSE IF c \in {35, 92} THEN Tok(s, p + 1, c, q2, tok, toks)
       ELSE Tok(s, p + 1, 0, q2, Append(tok, c), toks)
Tokenize(s) == LET r == Tok(s, 0, 0, FALSE, <<>>, <<>>) IN
               IF r.ok /\ r.toks = <<>> THEN [ok |-> FALSE, toks |-> <<>>] ELSE r

\* unquote_string_inplace at offset p (which holds a quote): [ok, v, e = offset after the closing quote]
RECURSIVE UqDouble(_, _, _)
UqDouble(s, p, acc) ==
  IF p >= Len(s) THEN [ok |-> FALSE, v |-> acc, e |-> p]
  ELSE LET c == B(s, p) IN
       IF c = 34 THEN [ok |-> TRUE, v |-> acc, e |-> p + 1]
       ELSE IF c = 92 THEN
            IF p + 1 < Len(s) /\ B(s, p + 1) \in {34, 92, 96, 36, 10} THEN UqDouble(s, p + 2, Append(acc, B(s, p + 1)))
            ELSE UqDouble(s, p + 1, Append(acc, 92))
       ELSE UqDouble(s, p + 1, Append(acc, c))
RECURSIVE UqSingle(_, _, _)
UqSingle(s, p, acc) ==
  IF p >= Len(s) THEN [ok |-> FALSE, v |-> acc, e |-> p]
  ELSE IF B(s, p) = 39 THEN [ok |-> TRUE, v |-> acc, e |-> p + 1]
  ELSE UqSingle(s, p + 1, Append(acc, B(s, p)))
\* _dbus_shell_unquote of one token
RECURSIVE Unq(_, _, _)
Unq(s, p, acc) ==
  IF p >= Len(s) THEN [ok |-> TRUE, v |-> acc]
  ELSE LET c == B(s, p) IN
       IF c = 92 THEN
            IF p + 1 >= Len(s) THEN [ok |-> TRUE, v |-> acc]
            ELSE Unq(s, p + 2, IF B(s, p + 1) = 10 THEN acc ELSE Append(acc, B(s, p + 1)))
       ELSE IF c \in {34, 39} THEN
            LET r == IF c = 34 THEN UqDouble(s, p + 1, <<>>) ELSE UqSingle(s, p + 1, <<>>) IN
            IF ~r.ok THEN [ok |-> FALSE, v |-> <<>>] ELSE Unq(s, r.e, acc \o r.v)
       ELSE Unq(s, p + 1, Append(acc, c))
RECURSIVE UnqAll(_, _, _)
UnqAll(toks, i, acc) ==
  IF i > Len(toks) THEN [ok |-> TRUE, argv |-> acc]
  ELSE LET u == Unq(toks[i], 0, <<>>) IN
       IF ~u.ok THEN [ok |-> FALSE, argv |-> <<>>] ELSE UnqAll(toks, i + 1, Append(acc, u.v))
\* _dbus_shell_parse_argv: [res \in {"ok", "invalid", "nomem"}, argv]
ParseArgv(cmd) ==
  LET t == Tokenize(CStr(cmd, 1)) IN
  IF ~t.ok THEN [res |-> "invalid", argv |-> <<>>]
  ELSE LET u == UnqAll(t.toks, 1, <<>>) IN
       IF ~u.ok THEN [res |-> "nomem", argv |-> <<>>] ELSE [res |-> "ok", argv |-> u.argv]

\* ------------------------------------------------------------------ the helper
SEC == <<68, 45, 66, 85, 83, 32, 83, 101, 114, 118, 105, 99, 101>>      \* "D-BUS Service"
K_Name == <<78, 97, 109, 101>>  K_Exec == <<69, 120, 101, 99>>  K_User == <<85, 115, 101, 114>>
DotService == <<46, 115, 101, 114, 118, 105, 99, 101>>
\* dirs: Seq of directories in configuration order; a directory is a Seq of [fname, content]
FileIn(dir, fname) == IF \E i \in 1..Len(dir) : dir[i].fname = fname
                      THEN [ok |-> TRUE, b |-> dir[CHOOSE i \in 1..Len(dir) : dir[i].fname = fname].content]
                      ELSE [ok |-> FALSE, b |-> <<>>]
RECURSIVE FirstLoadable(_, _, _)
FirstLoadable(dirs, fname, i) ==
  IF i > Len(dirs) THEN [ok |-> FALSE, secs |-> <<>>]
  ELSE LET f == FileIn(dirs[i], fname) IN
       IF f.ok /\ ParseDesktop(f.b).ok THEN ParseDesktop(f.b) ELSE FirstLoadable(dirs, fname, i + 1)
\* executable(p): whether a program exists at path p (supplied by the environment of the case)
HelperOutcome(name, dirs, executable(_)) ==
  LET no(code) == [code |-> code, argv |-> <<>>] IN
  IF ~BusNameValid(name) THEN no(5)
  ELSE LET d == FirstLoadable(dirs, name \o DotService, 1) IN
       IF ~d.ok THEN no(6)
       ELSE LET nm == GetKey(d, SEC, K_Name)  ex == GetKey(d, SEC, K_Exec)  us == GetKey(d, SEC, K_User) IN
            IF ~nm.ok THEN no(1)
            ELSE IF CStr(nm.v, 1) # name THEN no(8)
            ELSE IF ~ex.ok \/ ~us.ok THEN no(1)
            ELSE LET a == ParseArgv(ex.v) IN
                 IF a.res = "invalid" THEN no(10)
                 ELSE IF a.res = "nomem" THEN no(2)
                 ELSE IF ~executable(a.argv[1]) THEN no(9)
                 ELSE [code |-> 0, argv |-> a.argv]
=============================================================================

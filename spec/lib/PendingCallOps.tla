--------------------------- MODULE PendingCallOps ---------------------------
(* Method calls awaiting a reply on one libdbus connection, single-threaded   *)
(* use: dbus_connection_send_with_reply, reply arrival, timeout, cancel,      *)
(* blocking wait, dispatch, peer close; completion observed through the       *)
(* notify callback (counted), get_completed and steal_reply.                  *)
(* The transition function is total and deterministic; PReplay folds a        *)
(* recorded history through it and compares every observation.                *)
EXTENDS Naturals, Integers, Sequences, FiniteSets

PInit == [calls |-> <<>>,          \* function tag -> call record
          inflight |-> <<>>,       \* replies the peer has sent and the connection has not dispatched yet
          connected |-> TRUE,
          serials |-> {}]

NewCall(ser, T, nf) == [ser |-> ser, T |-> T, nf |-> nf, done |-> FALSE, res |-> "", tok |-> -1, notified |-> 0,
                        cancelled |-> FALSE, stolen |-> FALSE]
Put(f, k, v) == [x \in DOMAIN f \cup {k} |-> IF x = k THEN v ELSE f[x]]
Pending(c) == ~c.done /\ ~c.cancelled

Complete(st, tag, res, tok) ==
  LET c == st.calls[tag] IN
  [st EXCEPT !.calls = Put(st.calls, tag, [c EXCEPT !.done = TRUE, !.res = res, !.tok = tok,
                                             !.notified = IF c.nf THEN c.notified + 1 ELSE c.notified])]

\* the call (if any) a reply with serial rs completes
TagOfSerial(st, rs) == IF \E t \in DOMAIN st.calls : st.calls[t].ser = rs /\ Pending(st.calls[t])
                       THEN {CHOOSE t \in DOMAIN st.calls : st.calls[t].ser = rs /\ Pending(st.calls[t])} ELSE {}

RECURSIVE DispatchAll(_)
DispatchAll(st) ==
  IF st.inflight = <<>> THEN st
  ELSE LET r == Head(st.inflight)
           st1 == [st EXCEPT !.inflight = Tail(st.inflight)]
           ts == TagOfSerial(st1, r.rs) IN
       DispatchAll(IF ts = {} THEN st1 ELSE Complete(st1, CHOOSE t \in ts : TRUE, r.kind, r.tok))

RECURSIVE FireAll(_,_,_)
FireAll(st, tags, i) == IF i > Len(tags) THEN st
                        ELSE FireAll(IF tags[i] \in DOMAIN st.calls /\ Pending(st.calls[tags[i]])
                                     THEN Complete(st, tags[i], "err", -1) ELSE st, tags, i + 1)

\* the peer closed and the connection noticed: every pending call completes with a locally generated error
RECURSIVE FailAll(_,_)
FailAll(st, todo) == IF todo = {} THEN st
                     ELSE LET t == CHOOSE x \in todo : TRUE IN
                          FailAll(IF Pending(st.calls[t]) THEN Complete(st, t, "err", -1) ELSE st, todo \ {t})

Obs(st, tag, cm) == LET c == st.calls[tag] IN cm.completed = (IF c.done THEN 1 ELSE 0) /\ cm.notified = c.notified

RECURSIVE PReplay(_,_,_,_)
PReplay(cmds, k, st, devs) ==
  IF k > Len(cmds) THEN TRUE
  ELSE LET cm == cmds[k] IN
   CASE cm.k = "call" ->
          \* serials are non-zero and distinct; the peer receives the call under that serial
          LET st1 == [st EXCEPT !.calls = Put(st.calls, cm.tag, NewCall(cm.serial, cm.T, cm.nf = 1)), !.serials = @ \cup {cm.serial}] IN
          /\ cm.serial # 0 /\ cm.serial \notin st.serials
          /\ (st.connected => cm.seen = cm.serial)
          /\ cm.completed = 0 /\ cm.notified = 0
          /\ PReplay(cmds, k + 1, st1, devs)
     [] cm.k = "reply" ->
          LET c == st.calls[cm.tag]
              one == [rs |-> IF cm.kind = "bogus" THEN c.ser + 1000 ELSE c.ser, kind |-> IF cm.kind = "err" THEN "err" ELSE "ret",
                      tok |-> IF cm.kind = "err" THEN -1 ELSE cm.tag]
              add == IF cm.kind = "dup" THEN <<one, one>> ELSE <<one>> IN
          PReplay(cmds, k + 1, IF cm.sent = 1 /\ st.connected THEN [st EXCEPT !.inflight = @ \o add] ELSE st, devs)
     [] cm.k = "pump" ->
          LET st1 == FireAll(DispatchAll(st), cm.fire, 1) IN PReplay(cmds, k + 1, st1, devs)
     [] cm.k = "cancel" ->
          LET c == st.calls[cm.tag]
              st1 == IF Pending(c) THEN [st EXCEPT !.calls = Put(st.calls, cm.tag, [c EXCEPT !.cancelled = TRUE])] ELSE st IN
          /\ Obs(st1, cm.tag, cm) /\ PReplay(cmds, k + 1, st1, devs)
     [] cm.k = "block" ->
          \* returns once the call is complete: by its reply if one is on the way, else by a local error
          LET c == st.calls[cm.tag]
              mine == {i \in 1..Len(st.inflight) : st.inflight[i].rs = c.ser}
              st1 == IF ~Pending(c) THEN st
                     ELSE IF mine # {} THEN
                          LET i == CHOOSE x \in mine : \A y \in mine : x <= y  r == st.inflight[i] IN
                          Complete([st EXCEPT !.inflight = SubSeq(@, 1, i - 1) \o SubSeq(@, i + 1, Len(@))], cm.tag, r.kind, r.tok)
                     ELSE Complete(st, cm.tag, "err", -1) IN
          /\ Obs(st1, cm.tag, cm) /\ PReplay(cmds, k + 1, st1, devs)
     [] cm.k = "poll" -> Obs(st, cm.tag, cm) /\ PReplay(cmds, k + 1, st, devs)
     \* the connection read what was on the wire into its incoming queue without dispatching: nothing a caller can
     \* tell apart from "still on the way" (in particular a call cancelled now is never completed or notified)
     [] cm.k = "fetch" -> PReplay(cmds, k + 1, st, devs)
     [] cm.k = "steal" ->
          LET c == st.calls[cm.tag]
              has == c.done /\ ~c.stolen IN
          /\ Obs(st, cm.tag, cm)
          /\ (IF has THEN cm.reply = c.res /\ cm.rs = c.ser /\ (c.res = "ret" => cm.tok = c.tok) ELSE cm.reply = "none")
          /\ PReplay(cmds, k + 1, IF has THEN [st EXCEPT !.calls = Put(st.calls, cm.tag, [c EXCEPT !.stolen = TRUE])] ELSE st, devs)
     [] cm.k = "peerclose" ->
          \* replies already on the way are still dispatched, then every pending call fails locally
          \/ PReplay(cmds, k + 1, [FailAll(DispatchAll(st), DOMAIN st.calls) EXCEPT !.connected = FALSE], devs)
          \* KNOWN DEFECT DisconnectLeavesPendingCallsIncomplete: the synthesized errors are queued but the calls are
          \* dropped from the table first, so they never complete (unless somebody blocks on them)
          \/ ("DisconnectLeavesPendingCallsIncomplete" \in devs
              /\ PReplay(cmds, k + 1, [DispatchAll(st) EXCEPT !.connected = FALSE], devs))

\* ------------------------------------------------------------------ properties of the transition function itself
\* (checked by TLC in PendingCall.tla over all short command sequences)
AtMostOnce(st) == \A t \in DOMAIN st.calls : st.calls[t].notified <= 1
CancelledNeverNotified(st) == \A t \in DOMAIN st.calls : st.calls[t].cancelled => ~st.calls[t].done
DoneNotifiedIffAsked(st) == \A t \in DOMAIN st.calls : st.calls[t].done => st.calls[t].notified = (IF st.calls[t].nf THEN 1 ELSE 0)
=============================================================================

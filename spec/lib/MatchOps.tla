------------------------------ MODULE MatchOps ------------------------------
(* Match rules: parsing of the rule text (byte sequence), equality, matching. *)
(* Sources: D-Bus specification "Match Rules"; the quoting grammar is the one  *)
(* documented in bus/signals.c ("as for the shell: '\'' for a literal quote"). *)
EXTENDS Naturals, Sequences, FiniteSets, Syntax, Strs

MaxRuleLen == 1024
MaxArgNo == 63
MaxRuleTokens == 16      \* named deviation: text after 16 key/value pairs is ignored by the code

IsWhite(c) == c \in {32, 9, 10, 13}
cEq == 61  cComma == 44  cQuote == 39  cBackslash == 92

RECURSIVE SkipWhite(_,_)
SkipWhite(b, p) == IF p <= Len(b) /\ IsWhite(b[p]) THEN SkipWhite(b, p+1) ELSE p
RECURSIVE KeyEnd(_,_)
KeyEnd(b, p) == IF p <= Len(b) /\ b[p] # cEq /\ ~IsWhite(b[p]) THEN KeyEnd(b, p+1) ELSE p

\* value scanner: q = 0 (unquoted), cQuote (inside '...'), cBackslash (just saw a backslash)
\* returns [ok, val, next]
RECURSIVE ValScan(_,_,_,_)
ValScan(b, p, q, acc) ==
  IF p > Len(b) THEN
       (IF q = cBackslash THEN [ok |-> TRUE, val |-> Append(acc, cBackslash), next |-> p]
        ELSE IF q = cQuote THEN [ok |-> FALSE, val |-> <<>>, next |-> p]
        ELSE [ok |-> TRUE, val |-> acc, next |-> p])
  ELSE LET c == b[p] IN
    IF q = 0 THEN
         (IF c = cQuote THEN ValScan(b, p+1, cQuote, acc)
          ELSE IF c = cComma THEN [ok |-> TRUE, val |-> acc, next |-> p+1]
          ELSE IF c = cBackslash THEN ValScan(b, p+1, cBackslash, acc)
          ELSE ValScan(b, p+1, 0, Append(acc, c)))
    ELSE IF q = cBackslash THEN
         ValScan(b, p+1, 0, IF c = cQuote THEN Append(acc, c) ELSE acc \o <<cBackslash, c>>)
    ELSE (IF c = cQuote THEN ValScan(b, p+1, 0, acc) ELSE ValScan(b, p+1, cQuote, Append(acc, c)))

\* tokens: [ok, toks: Seq of [k, v]]
RECURSIVE Tokens(_,_,_,_)
Tokens(b, p, i, acc) ==
  IF i >= MaxRuleTokens \/ p > Len(b) THEN [ok |-> TRUE, toks |-> acc]
  ELSE LET ks == SkipWhite(b, p)
           ke == KeyEnd(b, ks)
           p2 == SkipWhite(b, ke) IN
       IF ks = ke THEN
            \* empty key: trailing white space is fine; anything else stops the tokenizer (named deviation
            \* EmptyKeyEndsRule: the remainder of the text is ignored)
            [ok |-> TRUE, toks |-> acc]
       ELSE IF p2 > Len(b) \/ b[p2] # cEq THEN [ok |-> FALSE, toks |-> <<>>]
       ELSE LET v == ValScan(b, p2 + 1, 0, <<>>) IN
            IF ~v.ok THEN [ok |-> FALSE, toks |-> <<>>]
            ELSE Tokens(b, v.next, i + 1, Append(acc, [k |-> SubSeq(b, ks, ke - 1), v |-> v.val]))

EmptyRule == [ty |-> 0, ifc |-> <<>>, mem |-> <<>>, snd |-> <<>>, dst |-> <<>>, path |-> <<>>,
              pathns |-> FALSE, args |-> <<>>, eav |-> FALSE]
\* args: sequence of [n, kind, val], kind in {"str","path","ns"}, kept sorted by n is not needed: compared as sets

TypeCode(v) == CASE v = S_method_call -> 1 [] v = S_method_return -> 2 [] v = S_error -> 3 [] v = S_signal -> 4 [] OTHER -> 0

\* decimal number at the start of k from position p: [n, next]; n = 1000 when too large
RECURSIVE Num(_,_,_,_)
Num(k, p, n, any) == IF p <= Len(k) /\ IsDigit(k[p])
                     THEN Num(k, p+1, IF n >= 1000 THEN 1000 ELSE n * 10 + (k[p] - 48), TRUE)
                     ELSE [n |-> n, next |-> p, any |-> any]

HasArg(r, n) == \E i \in 1..Len(r.args) : r.args[i].n = n
Bad == [ok |-> FALSE, rule |-> EmptyRule]
Good(r) == [ok |-> TRUE, rule |-> r]

ApplyTok(r, k, v) ==
  IF k = S_type THEN (IF r.ty # 0 \/ TypeCode(v) = 0 THEN Bad ELSE Good([r EXCEPT !.ty = TypeCode(v)]))
  ELSE IF k = S_sender THEN (IF r.snd # <<>> \/ ~BusNameValid(v) THEN Bad ELSE Good([r EXCEPT !.snd = v]))
  ELSE IF k = S_interface THEN (IF r.ifc # <<>> \/ ~InterfaceValid(v) THEN Bad ELSE Good([r EXCEPT !.ifc = v]))
  ELSE IF k = S_member THEN (IF r.mem # <<>> \/ ~MemberValid(v) THEN Bad ELSE Good([r EXCEPT !.mem = v]))
  ELSE IF k = S_path \/ k = S_path_namespace THEN
       (IF r.path # <<>> \/ ~PathValid(v) THEN Bad ELSE Good([r EXCEPT !.path = v, !.pathns = (k = S_path_namespace)]))
  ELSE IF k = S_destination THEN (IF r.dst # <<>> \/ ~BusNameValid(v) THEN Bad ELSE Good([r EXCEPT !.dst = v]))
  ELSE IF k = S_eavesdrop THEN (IF v = S_true THEN Good([r EXCEPT !.eav = TRUE])
                                ELSE IF v = S_false THEN Good([r EXCEPT !.eav = FALSE]) ELSE Bad)
  ELSE IF Len(k) >= 3 /\ SubSeq(k, 1, 3) = S_arg THEN
       LET num == Num(k, 4, 0, FALSE)
           rest == SubSeq(k, num.next, Len(k))
           kind == IF rest = <<>> THEN "str" ELSE IF rest = S_path THEN "path"
                   ELSE IF k = S_arg0namespace THEN "ns" ELSE "bad" IN
       IF ~num.any \/ kind = "bad" \/ num.n > MaxArgNo THEN Bad
       ELSE IF kind = "ns" /\ ~BusNamespaceValid(v) THEN Bad
       ELSE IF HasArg(r, num.n) THEN Bad
       ELSE Good([r EXCEPT !.args = Append(@, [n |-> num.n, kind |-> kind, val |-> v])])
  ELSE Bad

RECURSIVE ApplyToks(_,_,_)
ApplyToks(r, toks, i) == IF i > Len(toks) THEN Good(r)
                         ELSE LET x == ApplyTok(r, toks[i].k, toks[i].v) IN
                              IF x.ok THEN ApplyToks(x.rule, toks, i+1) ELSE Bad

\* canonical form: args as a set-like sorted sequence is unnecessary -- equality below compares sets
ParseRule(b) ==
  IF Len(b) > MaxRuleLen THEN [ok |-> FALSE, err |-> "LimitsExceeded", rule |-> EmptyRule]
  ELSE LET t == Tokens(b, 1, 0, <<>>) IN
       IF ~t.ok THEN [ok |-> FALSE, err |-> "MatchRuleInvalid", rule |-> EmptyRule]
       ELSE LET r == ApplyToks(EmptyRule, t.toks, 1) IN
            IF r.ok THEN [ok |-> TRUE, err |-> "", rule |-> r.rule]
            ELSE [ok |-> FALSE, err |-> "MatchRuleInvalid", rule |-> EmptyRule]

\* does the text stay inside the part of the grammar that is specified (used by generators / evidence)
NumTokens(b) == LET t == Tokens(b, 1, 0, <<>>) IN IF t.ok THEN Len(t.toks) ELSE 0

ArgSet(r) == {r.args[i] : i \in 1..Len(r.args)}
RuleEqual(a, b) == /\ a.ty = b.ty /\ a.ifc = b.ifc /\ a.mem = b.mem /\ a.snd = b.snd /\ a.dst = b.dst
                   /\ a.path = b.path /\ a.pathns = b.pathns /\ a.eav = b.eav /\ ArgSet(a) = ArgSet(b)

\* ---- matching --------------------------------------------------------------------------
\* m: abstract message [ty, ifc, mem, path, dst, args]; args = Seq of [t, v] (t = type code, v bytes for s/o)
\* sndNames: set of names whose primary owner is the sender (its unique name included); for the bus {S_org_freedesktop_DBus}
\* adrKnown: TRUE when there is an addressed recipient connection; adrNames: names it is primary owner of
IsPrefixB(p, s) == Len(p) <= Len(s) /\ SubSeq(s, 1, Len(p)) = p
EndsWithSlash(s) == Len(s) >= 1 /\ s[Len(s)] = cSlash

ArgMatches(a, m) ==
  /\ a.n + 1 <= Len(m.args)
  /\ LET x == m.args[a.n + 1] IN
     /\ (x.t = cS \/ (a.kind = "path" /\ x.t = cO))
     /\ CASE a.kind = "str" -> x.v = a.val
          [] a.kind = "path" -> \/ x.v = a.val
                                \/ (Len(x.v) < Len(a.val) /\ EndsWithSlash(x.v) /\ IsPrefixB(x.v, a.val))
                                \/ (Len(a.val) < Len(x.v) /\ EndsWithSlash(a.val) /\ IsPrefixB(a.val, x.v))
          [] a.kind = "ns" -> /\ IsPrefixB(a.val, x.v)
                              /\ (Len(a.val) < Len(x.v) => x.v[Len(a.val) + 1] = cDot)

RuleMatches(r, m, sndNames, adrKnown, adrNames) ==
  /\ (r.ty # 0 => r.ty = m.ty)
  /\ (r.ifc # <<>> => r.ifc = m.ifc)
  /\ (r.mem # <<>> => r.mem = m.mem)
  /\ (r.snd # <<>> => r.snd \in sndNames)
  /\ IF r.dst # <<>>
     THEN /\ m.dst # <<>> /\ r.eav
          /\ (IF adrKnown THEN r.dst \in adrNames ELSE r.dst = m.dst)
     ELSE (r.eav \/ m.dst = <<>>)
  /\ (r.path # <<>> /\ ~r.pathns => r.path = m.path)
  /\ (r.path # <<>> /\ r.pathns =>
        /\ IsPrefixB(r.path, m.path)
        /\ (Len(r.path) > 1 /\ Len(m.path) > Len(r.path) => m.path[Len(r.path) + 1] = cSlash))
  /\ \A i \in 1..Len(r.args) : ArgMatches(r.args[i], m)

\* ---- self checks -------------------------------------------------------------------------
\* type='signal',member='Foo'
T1 == <<116,121,112,101,61,39,115,105,103,110,97,108,39,44,109,101,109,98,101,114,61,39,70,111,111,39>>
ASSUME ParseRule(T1).ok /\ ParseRule(T1).rule.ty = 4 /\ ParseRule(T1).rule.mem = <<70,111,111>>
ASSUME ParseRule(<<>>).ok /\ ParseRule(<<>>).rule = EmptyRule
\* arg0='a'\''b'   -> a'b
ASSUME ParseRule(<<97,114,103,48,61,39,97,39,92,39,39,98,39>>).rule.args = <<[n |-> 0, kind |-> "str", val |-> <<97,39,98>>]>>
\* type='signal   (unbalanced)
ASSUME ~ParseRule(<<116,121,112,101,61,39,115,105,103,110,97,108>>).ok
\* arg64=''  and  arg0=x,arg0path=y  and foo=bar
ASSUME ~ParseRule(<<97,114,103,54,52,61>>).ok
ASSUME ~ParseRule(<<97,114,103,48,61,120,44,97,114,103,48,112,97,116,104,61,121>>).ok
ASSUME ~ParseRule(<<102,111,111,61,98,97,114>>).ok
=============================================================================

------------------------------ MODULE AuthOps ------------------------------
(* Server side of the D-Bus SASL handshake (doc/dbus-specification.xml,       *)
(* "Authentication Protocol"; state tables as in dbus/dbus-auth.c) as a total  *)
(* transition function over abstract commands.                                *)
(*  cfg: [allowed: set of mechanism names, sockUid, serverUid]                *)
(*  cmd: [c: "auth"|"data"|"cancel"|"error"|"begin"|"fd"|"unknown"|"nonascii",*)
(*        mech: "EXTERNAL"|"DBUS_COOKIE_SHA1"|"ANONYMOUS"|"OTHER"|"" ,         *)
(*        hex: "none"|"ok"|"bad",   payload:                                   *)
(*        who: "same"|"other"|"empty"|"garbage"  (identity text, if any),      *)
(*        resp: "correct"|"wrong"|"malformed"    (cookie response, if any)]    *)
(*  output: "ok" | "rejected" | "data" | "error" | "agree" | "none" ; dead: the *)
(*  server hangs up after the output.                                          *)
EXTENDS Naturals, Integers, Sequences, FiniteSets

MaxFailures == 6
AInit == [st |-> "WaitAuth", mech |-> "", fails |-> 0, ident |-> "", asked |-> FALSE, authz |-> "none", stage |-> 0, fd |-> FALSE]
Res(s, out) == [s |-> s, out |-> out]

Reject(s) == LET f == s.fails + 1 IN
  Res([s EXCEPT !.st = IF f >= MaxFailures THEN "Dead" ELSE "WaitAuth", !.fails = f, !.mech = "", !.ident = "", !.asked = FALSE,
                !.authz = "none", !.stage = 0], "rejected")
Err(s) == Res(s, "error")
Okay(s, who) == Res([s EXCEPT !.st = "WaitBegin", !.authz = who], "ok")

\* EXTERNAL with decoded data `who` ("empty" = zero-length data)
External(cfg, s, who) ==
  IF who # "empty" /\ s.ident # "" THEN Reject(s)
  ELSE LET id == IF who # "empty" THEN who ELSE s.ident IN
       IF id = "" /\ ~s.asked THEN Res([s EXCEPT !.st = "WaitData", !.asked = TRUE], "data")
       ELSE IF id = "garbage" THEN Reject(s)
       ELSE IF id \in {"", "same"} THEN Okay([s EXCEPT !.ident = id], "uid")
       ELSE Reject(s)            \* "other": a uid that is not the one the kernel reports for the socket

Cookie1(cfg, s, who) ==
  IF who = "same" /\ cfg.sockCanReadKeyring \in BOOLEAN
  THEN Res([s EXCEPT !.st = "WaitData", !.stage = 1, !.ident = "same"], "data")
  ELSE Reject(s)
Cookie2(cfg, s, resp) == IF resp = "correct" THEN Okay(s, "server") ELSE Reject(s)

MechData(cfg, s, cmd) ==
  CASE s.mech = "EXTERNAL" -> External(cfg, s, cmd.who)
    [] s.mech = "ANONYMOUS" -> Okay(s, "anon")
    [] s.mech = "DBUS_COOKIE_SHA1" -> IF s.stage = 0 THEN Cookie1(cfg, s, cmd.who) ELSE Cookie2(cfg, s, cmd.resp)
    [] OTHER -> Reject(s)

AuthStep(cfg, s, cmd) ==
  IF cmd.c \in {"unknown", "nonascii"} THEN Err(s)
  ELSE CASE s.st = "WaitAuth" ->
         (CASE cmd.c = "auth" ->
                 IF cmd.mech = "" \/ cmd.mech \notin cfg.allowed THEN Reject(s)
                 ELSE IF cmd.hex = "bad" THEN Err([s EXCEPT !.mech = cmd.mech])
                 ELSE MechData(cfg, [s EXCEPT !.mech = cmd.mech], IF cmd.hex = "none" THEN [cmd EXCEPT !.who = "empty"] ELSE cmd)
            [] cmd.c \in {"cancel", "data", "fd"} -> Err(s)
            [] cmd.c = "begin" -> Res([s EXCEPT !.st = "Dead"], "none")
            [] cmd.c = "error" -> Reject(s))
       [] s.st = "WaitData" ->
         (CASE cmd.c \in {"auth", "fd"} -> Err(s)
            [] cmd.c \in {"cancel", "error"} -> Reject(s)
            [] cmd.c = "begin" -> Res([s EXCEPT !.st = "Dead"], "none")
            [] cmd.c = "data" -> IF cmd.hex = "bad" THEN Err(s) ELSE MechData(cfg, s, IF cmd.hex = "none" THEN [cmd EXCEPT !.who = "empty"] ELSE cmd))
       [] s.st = "WaitBegin" ->
         (CASE cmd.c \in {"auth", "data"} -> Err(s)
            [] cmd.c = "begin" -> Res([s EXCEPT !.st = "Authed"], "none")
            [] cmd.c = "fd" -> Res([s EXCEPT !.fd = TRUE], "agree")
            [] cmd.c \in {"cancel", "error"} -> Reject(s))
       [] OTHER -> Res(s, "none")

\* replay of a recorded conversation: every response must be the one the function gives; after BEGIN the outcome
\* (connection usable and identity, or hang-up) must match
RECURSIVE AReplay(_,_,_,_)
AReplay(cfg, cmds, k, s) ==
  IF k > Len(cmds) THEN TRUE
  ELSE LET cm == cmds[k]  r == AuthStep(cfg, s, cm) IN
       /\ cm.out = r.out
       /\ (cm.out = "rejected" => {cm.mechs[i] : i \in 1..Len(cm.mechs)} = cfg.allowed)
       /\ (r.s.st = "Dead" <=> cm.eof = 1)
       /\ (cm.c = "begin" /\ r.s.st = "Authed" =>
              /\ cm.hello = 1
              /\ cm.ident = (CASE r.s.authz = "uid" -> cfg.sockUid [] r.s.authz = "server" -> cfg.serverUid [] OTHER -> -1)
              \* the groups read from the socket belong to the socket's owner: they go with the identity EXTERNAL
              \* establishes and with no other (a cookie proves who you are, not whose socket this is)
              /\ cm.gids = (IF r.s.authz = "uid" THEN cfg.sockGids ELSE <<>>))
       /\ AReplay(cfg, cmds, k + 1, r.s)
=============================================================================

------------------------------- MODULE Syntax -------------------------------
(* Grammar predicates of the D-Bus specification over byte sequences        *)
(* (1-indexed Seq of 0..255), transcribed from doc/dbus-specification.xml:   *)
(* "Valid Names", "Valid Object Paths", "Type System", "Marshaling".         *)
(* Nothing here is taken from the implementation.                            *)
EXTENDS Naturals, Sequences, FiniteSets

IsUpper(c) == c >= 65 /\ c <= 90
IsLower(c) == c >= 97 /\ c <= 122
IsDigit(c) == c >= 48 /\ c <= 57
IsAlpha(c) == IsUpper(c) \/ IsLower(c)
cDot == 46  cColon == 58  cSlash == 47  cUnder == 95  cHyphen == 45

MaxNameLen == 255
MaxSigLen == 255
MaxDepth == 32

\* ---- generic element-wise name checker --------------------------------------------------
\* InitOk(c): may start an element; RestOk(c): may continue an element.  Elements are separated
\* by '.', none may be empty.  Returns the number of elements, or 0 when malformed.
IfcInit(c) == IsAlpha(c) \/ c = cUnder
IfcRest(c) == IsAlpha(c) \/ IsDigit(c) \/ c = cUnder
BusInit(c) == IsAlpha(c) \/ c = cUnder \/ c = cHyphen
BusRest(c) == IsAlpha(c) \/ IsDigit(c) \/ c = cUnder \/ c = cHyphen
\* mode: "ifc" (interface / error names), "bus" (well-known names), "uniq" (after the ':')
InitOk(mode, c) == CASE mode = "ifc" -> IfcInit(c) [] mode = "bus" -> BusInit(c) [] OTHER -> BusRest(c)
RestOk(mode, c) == CASE mode = "ifc" -> IfcRest(c) [] OTHER -> BusRest(c)
RECURSIVE ElemScan(_,_,_,_,_)
ElemScan(b, i, atStart, count, mode) ==
   IF i > Len(b) THEN (IF atStart THEN 0 ELSE count)
   ELSE LET c == b[i] IN
        IF c = cDot THEN (IF atStart THEN 0 ELSE ElemScan(b, i+1, TRUE, count, mode))
        ELSE IF atStart THEN (IF InitOk(mode, c) THEN ElemScan(b, i+1, FALSE, count+1, mode) ELSE 0)
        ELSE (IF RestOk(mode, c) THEN ElemScan(b, i+1, FALSE, count, mode) ELSE 0)

InterfaceValid(b) == Len(b) >= 1 /\ Len(b) <= MaxNameLen /\ ElemScan(b, 1, TRUE, 0, "ifc") >= 2
ErrorNameValid(b) == InterfaceValid(b)
MemberValid(b) == Len(b) >= 1 /\ Len(b) <= MaxNameLen /\ IfcInit(b[1])
                  /\ \A i \in 2..Len(b) : IfcRest(b[i])

\* unique connection names: ':' then >= 2 elements which may start with a digit
UniqueNameValid(b) == Len(b) >= 1 /\ Len(b) <= MaxNameLen /\ b[1] = cColon
                      /\ ElemScan(Tail(b), 1, TRUE, 0, "uniq") >= 2
WellKnownNameValid(b) == Len(b) >= 1 /\ Len(b) <= MaxNameLen /\ b[1] # cColon
                      /\ ElemScan(b, 1, TRUE, 0, "bus") >= 2
BusNameValid(b) == UniqueNameValid(b) \/ WellKnownNameValid(b)
\* KNOWN DEFECT (deviation LenientUniqueName): what the unique-name branch of _dbus_validate_bus_name_full really accepts --
\* ':' followed by any run of name characters and dots, each dot followed by a name character (so ":", ":a", ":.a" pass)
RECURSIVE UniqueTailLenient(_,_)
UniqueTailLenient(b, i) ==
  IF i > Len(b) THEN TRUE
  ELSE IF b[i] = cDot THEN i + 1 <= Len(b) /\ RestOk("uniq", b[i + 1]) /\ b[i + 1] # cDot /\ UniqueTailLenient(b, i + 2)
  ELSE RestOk("uniq", b[i]) /\ UniqueTailLenient(b, i + 1)
UniqueNameLenient(b) == Len(b) >= 1 /\ Len(b) <= MaxNameLen /\ b[1] = cColon /\ UniqueTailLenient(b, 2)
BusNameValidL(b, lenient) == BusNameValid(b) \/ (lenient /\ UniqueNameLenient(b))

\* arg0namespace / own_prefix values: like a well-known name but a single element is enough
BusNamespaceValid(b) == Len(b) >= 1 /\ Len(b) <= MaxNameLen /\ b[1] # cColon
                      /\ ElemScan(b, 1, TRUE, 0, "bus") >= 1

\* ---- object paths ----------------------------------------------------------------------
PathChar(c) == IsAlpha(c) \/ IsDigit(c) \/ c = cUnder
PathValid(b) == /\ Len(b) >= 1 /\ b[1] = cSlash
                /\ \A i \in 1..Len(b) : (b[i] = cSlash \/ PathChar(b[i]))
                /\ \A i \in 1..Len(b)-1 : ~(b[i] = cSlash /\ b[i+1] = cSlash)
                /\ (Len(b) > 1 => b[Len(b)] # cSlash)

\* ---- signatures ------------------------------------------------------------------------
cY == 121  cB == 98  cN == 110 cQ == 113 cI == 105 cU == 117 cX == 120 cT == 116 cD == 100 cH == 104
cS == 115  cO == 111 cG == 103 cA == 97  cV == 118 cLP == 40 cRP == 41 cLB == 123 cRB == 125
BasicCodes == {cY, cB, cN, cQ, cI, cU, cX, cT, cD, cH, cS, cO, cG}
IsBasic(c) == c \in BasicCodes

\* ParseType(b, i, ad, sd, dd, inArray): index just after the single complete type starting at i,
\* or 0 if there is none.  ad/sd/dd = number of enclosing arrays / structs / dict entries.
RECURSIVE ParseType(_,_,_,_,_,_)
RECURSIVE ParseFields(_,_,_,_,_,_,_)
ParseType(b, i, ad, sd, dd, inArray) ==
  IF i > Len(b) THEN 0
  ELSE LET c == b[i] IN
   IF IsBasic(c) \/ c = cV THEN i + 1
   ELSE IF c = cA THEN (IF ad + 1 > MaxDepth THEN 0 ELSE ParseType(b, i+1, ad+1, sd, dd, TRUE))
   ELSE IF c = cLP THEN
        (IF sd + 1 > MaxDepth THEN 0
         ELSE LET e == ParseFields(b, i+1, ad, sd+1, dd, cRP, 0) IN
              IF e.n >= 1 THEN e.next ELSE 0)
   ELSE IF c = cLB THEN
        (IF ~inArray \/ dd + 1 > MaxDepth THEN 0
         ELSE IF i + 1 > Len(b) \/ ~IsBasic(b[i+1]) THEN 0
         ELSE LET e == ParseFields(b, i+1, ad, sd, dd+1, cRB, 0) IN
              IF e.n = 2 THEN e.next ELSE 0)
   ELSE 0
\* fields up to the closing char; result [n |-> number of fields (0 = malformed), next |-> index after close]
ParseFields(b, i, ad, sd, dd, close, n) ==
  IF i > Len(b) THEN [n |-> 0, next |-> 0]
  ELSE IF b[i] = close THEN [n |-> n, next |-> i + 1]
  ELSE LET j == ParseType(b, i, ad, sd, dd, FALSE) IN
       IF j = 0 THEN [n |-> 0, next |-> 0] ELSE ParseFields(b, j, ad, sd, dd, close, n + 1)

RECURSIVE CountTypes(_,_,_)
\* number of single complete types in b from i (or -1 encoded as 1000 when malformed)
CountTypes(b, i, n) ==
  IF i > Len(b) THEN n
  ELSE LET j == ParseType(b, i, 0, 0, 0, FALSE) IN IF j = 0 THEN 1000 ELSE CountTypes(b, j, n + 1)

SigValid(b) == Len(b) <= MaxSigLen /\ CountTypes(b, 1, 0) < 1000
SingleSigValid(b) == Len(b) <= MaxSigLen /\ Len(b) >= 1 /\ ParseType(b, 1, 0, 0, 0, FALSE) = Len(b) + 1

\* ---- UTF-8 (Unicode well-formed byte sequences, table 3-7; NUL is not allowed in D-Bus strings) ----
RECURSIVE Utf8From(_,_)
Utf8From(b, p) ==
  IF p > Len(b) THEN TRUE
  ELSE LET c == b[p]
           Cont(k) == p + k <= Len(b) /\ b[p+k] >= 128 /\ b[p+k] <= 191 IN
     IF c = 0 THEN FALSE
     ELSE IF c < 128 THEN Utf8From(b, p+1)
     ELSE IF c >= 194 /\ c <= 223 THEN Cont(1) /\ Utf8From(b, p+2)
     ELSE IF c >= 224 /\ c <= 239 THEN
          /\ p + 2 <= Len(b)
          /\ b[p+1] >= (IF c = 224 THEN 160 ELSE 128)
          /\ b[p+1] <= (IF c = 237 THEN 159 ELSE 191)
          /\ Cont(2) /\ Utf8From(b, p+3)
     ELSE IF c >= 240 /\ c <= 244 THEN
          /\ p + 3 <= Len(b)
          /\ b[p+1] >= (IF c = 240 THEN 144 ELSE 128)
          /\ b[p+1] <= (IF c = 244 THEN 143 ELSE 191)
          /\ Cont(2) /\ Cont(3) /\ Utf8From(b, p+4)
     ELSE FALSE
Utf8Valid(b) == Utf8From(b, 1)

\* ---- self-checks taken from the examples in the specification text ------------------------
S2B(str) == CASE str = "" -> <<>> [] OTHER -> <<>>   \* (strings are atomic in TLC; tests use byte tuples)
ASSUME InterfaceValid(<<97,46,98>>)                 \* "a.b"
ASSUME ~InterfaceValid(<<97>>)                      \* "a"
ASSUME ~InterfaceValid(<<97,46,49>>)                \* "a.1"
ASSUME ~InterfaceValid(<<97,45,46,98>>)             \* "a-.b"  (hyphen only in bus names)
ASSUME WellKnownNameValid(<<97,45,46,98>>)
ASSUME UniqueNameValid(<<58,49,46,52,50>>)          \* ":1.42"
ASSUME ~UniqueNameValid(<<58>>) /\ ~UniqueNameValid(<<58,97>>)
ASSUME ~BusNameValid(<<97,46,46,98>>) /\ ~BusNameValid(<<46,97,46,98>>) /\ ~BusNameValid(<<97,46,98,46>>)
ASSUME PathValid(<<47>>) /\ PathValid(<<47,97,47,98>>) /\ ~PathValid(<<47,97,47>>) /\ ~PathValid(<<47,47>>) /\ ~PathValid(<<>>) /\ ~PathValid(<<97>>)
ASSUME MemberValid(<<95,97,49>>) /\ ~MemberValid(<<49,97>>) /\ ~MemberValid(<<97,46,98>>) /\ ~MemberValid(<<>>)
ASSUME SigValid(<<>>) /\ ~SingleSigValid(<<>>)
ASSUME SingleSigValid(<<cA,cLB,cS,cV,cRB>>)         \* a{sv}
ASSUME ~SigValid(<<cLB,cS,cV,cRB>>)                 \* {sv} outside array
ASSUME ~SigValid(<<cA,cLB,cV,cS,cRB>>)              \* key must be basic
ASSUME ~SigValid(<<cA,cLB,cS,cRB>>) /\ ~SigValid(<<cA,cLB,cS,cS,cS,cRB>>)
ASSUME ~SigValid(<<cLP,cRP>>) /\ ~SigValid(<<cA>>) /\ ~SigValid(<<cLP,cI>>) /\ ~SigValid(<<cI,cRP>>)
ASSUME SigValid(<<cI,cI>>) /\ ~SingleSigValid(<<cI,cI>>)
ASSUME ~SigValid(<<cLP,cA,cLB,cS,cRP,cRB>>)         \* (a{s)}  mis-nested
ASSUME Utf8Valid(<<104,195,169>>) /\ ~Utf8Valid(<<192,128>>) /\ ~Utf8Valid(<<237,160,128>>) /\ ~Utf8Valid(<<244,144,128,128>>) /\ ~Utf8Valid(<<97,0>>)
=============================================================================

-------------------------------- MODULE Cases --------------------------------
(* Table validation of the pure operators against what the implementation did: *)
(* every line of the NDJSON file named by CASES is one case (input bytes plus   *)
(* the library's verdict / output, recorded by harness/c/wirecase.c); TLC        *)
(* evaluates the specification's operator on the input and compares.            *)
EXTENDS Wire, MatchOps, Json, IOUtils, TLC

Log == ndJsonDeserialize(IOEnv.CASES)
VARIABLE x

B2I(v) == IF v THEN 1 ELSE 0

\* ---- grammar predicates (C16) ----
SynExpected(c) ==
  CASE c.g = "bus" -> BusNameValid(c.b)
    [] c.g = "ifc" -> InterfaceValid(c.b)
    [] c.g = "mem" -> MemberValid(c.b)
    [] c.g = "err" -> ErrorNameValid(c.b)
    [] c.g = "path" -> PathValid(c.b)
    [] c.g = "sig" -> SigValid(c.b)
    [] c.g = "sig1" -> SingleSigValid(c.b)
    [] c.g = "utf8" -> Utf8Valid(c.b)
    [] c.g = "busns" -> BusNamespaceValid(c.b)
\* pub / int / msg: -1 = route not applicable for this input, else the verdict of that route
SynOK(c) == LET e == B2I(SynExpected(c)) IN
            /\ c.pub \in {-1, e} /\ c.int \in {-1, e}
            /\ (c.msg # -1 => c.msg = B2I(MessageValid(c.mb, 0)))
            /\ (c.msg # -1 /\ c.mvalid = 1 => c.msg = e)

\* ---- untrusted bytes (C01) ----
DemOK(c) ==
  LET fr == Frame(c.b)
      shouldAcc == ~fr.corrupt /\ Len(fr.out) >= 1
      fx == IF Len(c.b) >= 16 THEN Fixed(SubSeq(c.b, 1, 16)) ELSE [ok |-> FALSE, total |-> 0] IN
  /\ c.acc = B2I(shouldAcc)
  /\ c.lc = B2I(fr.corrupt) /\ c.ln = Len(fr.out)
  /\ c.need = (IF Len(c.b) < 16 THEN 0 ELSE IF fx.ok THEN fx.total ELSE -1)
  /\ (shouldAcc => LET d == MessageDec(SubSeq(c.b, 1, fx.total), 0) IN d.ok /\ c.m = d.m)

\* ---- chunked feeding (C11) ----
RECURSIVE StepsOK(_,_,_,_)
StepsOK(c, k, seen, dead) ==
  IF k > Len(c.steps) THEN TRUE
  ELSE LET st == c.steps[k]
           fr == Frame(SubSeq(c.b, 1, st.fed))
           want == IF dead THEN <<>> ELSE SubSeq(fr.out, seen + 1, Len(fr.out)) IN
       /\ st.out = want
       /\ st.corrupt = B2I(fr.corrupt)
       /\ StepsOK(c, k + 1, Len(fr.out), fr.corrupt)
ChunkOK(c) == StepsOK(c, 1, 0, FALSE)

CaseOK(c) == CASE c.k = "syn" -> SynOK(c) [] c.k = "dem" -> DemOK(c) [] c.k = "chunk" -> ChunkOK(c)
BadCases == {i \in 1..Len(Log) : ~CaseOK(Log[i])}
\* evaluated in Next (worker thread: honours -Xss), not in Init (main thread)
Init == x = 0
Next == x = 0 /\ x' = 1 /\ PrintT(<<"CASES", Len(Log)>>) /\ \A i \in BadCases : PrintT(<<"BADCASE", i>>)
=============================================================================

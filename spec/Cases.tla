-------------------------------- MODULE Cases --------------------------------
(* Table validation of the pure operators against what the implementation did: *)
(* every line of the NDJSON file named by CASES is one case (input bytes plus   *)
(* the library's verdict / output, recorded by harness/c/wirecase.c); TLC        *)
(* evaluates the specification's operator on the input and compares.            *)
EXTENDS Wire, MatchOps, ObjectTreeOps, PendingCallOps, AuthOps, Json, IOUtils, TLC

Log == ndJsonDeserialize(IOEnv.CASES)
VARIABLE x

B2I(v) == IF v THEN 1 ELSE 0
\* known-defect deviations tolerated in this run (file named by VERIF_DEVS, one {"dev": name} per line)
DevSet == LET d == ndJsonDeserialize(IOEnv.VERIF_DEVS) IN {d[i].dev : i \in 1..Len(d)}
SetOfSeq(sq) == {sq[i] : i \in 1..Len(sq)}
LUN == "LenientUniqueName" \in DevSet

\* ---- grammar predicates (C16) ----
SynExpected(c) ==
  CASE c.g = "bus" -> BusNameValid(c.b)
    [] c.g = "ifc" -> InterfaceValid(c.b)
    [] c.g = "mem" -> MemberValid(c.b)
    [] c.g = "err" -> ErrorNameValid(c.b)
    [] c.g = "path" -> PathValid(c.b)
    [] c.g = "sig" -> SigValid(c.b)
    [] c.g = "sig1" -> SingleSigValid(c.b)
    [] c.g = "utf8" -> Utf8Valid(c.b)
    [] c.g = "busns" -> BusNamespaceValid(c.b)
\* pub / int / msg: -1 = route not applicable for this input, else the verdict of that route
SynOK(c) == LET e == B2I(SynExpected(c)) IN
            /\ c.pub \in {-1, e} /\ c.int \in {-1, e}
            /\ (c.msg # -1 => c.msg = B2I(MessageValid(c.mb, 0)))
            /\ (c.msg # -1 /\ c.mvalid = 1 => c.msg = e)

\* ---- untrusted bytes (C01) ----
DemOK(c) ==
  LET fr == FrameL(c.b, LUN)
      shouldAcc == ~fr.corrupt /\ Len(fr.out) >= 1
      fx == IF Len(c.b) >= 16 THEN Fixed(SubSeq(c.b, 1, 16)) ELSE [ok |-> FALSE, total |-> 0] IN
  /\ c.acc = B2I(shouldAcc)
  /\ c.lc = B2I(fr.corrupt) /\ c.ln = Len(fr.out)
  /\ c.need = (IF Len(c.b) < 16 THEN 0 ELSE IF fx.ok THEN fx.total ELSE -1)
  /\ (shouldAcc => LET d == MessageDecL(SubSeq(c.b, 1, fx.total), 0, LUN) IN d.ok /\ c.m = d.m)

\* ---- one array at the length limit (C01): a signal whose body is a single array of c.nbytes zero bytes of a fixed-size
\* element type; too large to spell out byte by byte, so the clause of the specification is applied to the numbers:
\* an array is at most 2^26 bytes long, a whole number of elements, and the message at most 2^27 bytes
ElemSize(t) == CASE t = 121 -> 1 [] t \in {110, 113} -> 2 [] t \in {120, 116, 100} -> 8 [] OTHER -> 4
BigArrOK(c) == LET ok == /\ c.nbytes <= MaxArrayLen /\ c.nbytes % ElemSize(c.elem) = 0
                        /\ c.hlen + c.blen <= MaxMsgLen IN
               c.acc = B2I(ok) /\ c.lc = B2I(~ok) /\ c.ln = B2I(ok)

\* ---- chunked feeding (C11) ----
RECURSIVE StepsOK(_,_,_,_)
StepsOK(c, k, seen, dead) ==
  IF k > Len(c.steps) THEN TRUE
  ELSE LET st == c.steps[k]
           fr == FrameL(SubSeq(c.b, 1, st.fed), LUN)
           want == IF dead THEN <<>> ELSE SubSeq(fr.out, seen + 1, Len(fr.out)) IN
       /\ st.out = want
       /\ st.corrupt = B2I(fr.corrupt)
       /\ StepsOK(c, k + 1, Len(fr.out), fr.corrupt)
ChunkOK(c) == StepsOK(c, 1, 0, FALSE)

\* ---- header edits (C12) ----
\* op: [f |-> "D"|"S"|"P"|"I"|"M"|"E"|"C"|"R"|"U", del |-> BOOLEAN, v |-> bytes]
EditApply(st, op) ==
  CASE op.f = "D" -> [st EXCEPT !.m.dst = IF op.del THEN <<>> ELSE op.v]
    [] op.f = "S" -> [st EXCEPT !.m.snd = IF op.del THEN <<>> ELSE op.v]
    [] op.f = "P" -> [st EXCEPT !.m.path = IF op.del THEN <<>> ELSE op.v]
    [] op.f = "I" -> [st EXCEPT !.m.ifc = IF op.del THEN <<>> ELSE op.v]
    [] op.f = "M" -> [st EXCEPT !.m.mem = IF op.del THEN <<>> ELSE op.v]
    [] op.f = "E" -> [st EXCEPT !.m.err = IF op.del THEN <<>> ELSE op.v]
    [] op.f = "C" -> [st EXCEPT !.m.ci = IF op.del THEN <<>> ELSE op.v]
    [] op.f = "R" -> [st EXCEPT !.m.rs = op.v]
    [] op.f = "U" -> [st EXCEPT !.unk = <<>>]
MandatoryOf(m) == CASE m.ty = 1 -> m.path # <<>> /\ m.mem # <<>>
                    [] m.ty = 2 -> m.rs # <<0,0,0,0>>
                    [] m.ty = 3 -> m.err # <<>> /\ m.rs # <<0,0,0,0>>
                    [] m.ty = 4 -> m.path # <<>> /\ m.ifc # <<>> /\ m.mem # <<>>
                    [] OTHER -> TRUE
RECURSIVE EditSteps(_,_,_)
EditSteps(c, k, st) ==
  IF k > Len(c.steps) THEN TRUE
  ELSE LET exp == EditApply(st, c.ops[k])
           got == MessageDecX(c.steps[k].bytes, 0, FALSE) IN
       /\ c.steps[k].ok = 1
       /\ got.ok /\ got.m = exp.m /\ got.unk = exp.unk          \* serialised form well-formed and says the same
       /\ c.steps[k].m = exp.m                                   \* getters read back as set, nothing else changed
       /\ (MandatoryOf(exp.m) => MessageValid(c.steps[k].bytes, 0)) \* fully valid while mandatory fields are present
       /\ EditSteps(c, k + 1, exp)
EditOK(c) == LET d == MessageDecX(c.b, 0, TRUE) IN
             /\ d.ok /\ c.base = 1
             /\ EditSteps(c, 1, [m |-> [d.m EXCEPT !.ser = <<77,0,0,0>>], unk |-> d.unk])

\* ---- construction programs (C02) ----
\* c.want: the abstract message of the program (written down by the generator, not by libdbus); c.bytes: what the
\* library serialised; c.m / c.copy / c.dm: read back through the iterators from the built message, from its copy,
\* and from the message obtained by parsing c.bytes again; c.re: that message serialised once more;
\* c.be: the generator's own big-endian encoding of the same program, c.bem / c.bere: what the library read from it
\* and how it serialised it (forces the byte-order conversion).
BuildOK(c) ==
  LET d == MessageDecX(c.bytes, 0, TRUE)
      e == MessageDecX(c.bere, 0, TRUE) IN
  /\ c.built = 1
  /\ d.ok /\ d.m = c.want                          \* valid wire format that says what was built
  /\ c.m = c.want /\ c.dem = 1 /\ c.dm = c.want     \* read-back and parse-back
  /\ c.re = c.bytes                                  \* byte-identical re-serialisation
  /\ c.copy = [c.want EXCEPT !.ser = <<0,0,0,0>>]    \* copy: equal, serial zero
  /\ MessageDecX(c.be, 0, TRUE).ok /\ MessageDecX(c.be, 0, TRUE).m = c.want   \* (sanity of the generator's encoder)
  /\ c.beacc = 1 /\ c.bem = c.want                  \* other byte order: no value changes
  /\ e.ok /\ e.m = c.want

\* ---- object-path tree histories (C20) ----
RECURSIVE OReplay(_,_,_)
OReplay(cmds, k, reg) ==
  IF k > Len(cmds) THEN TRUE
  ELSE LET cm == cmds[k] IN
    CASE cm.k = "reg" -> LET r == Register(reg, cm.p, cm.id, cm.fb = 1) IN
                           cm.ok = B2I(r.ok) /\ cm.err = r.err /\ OReplay(cmds, k + 1, r.reg)
      [] cm.k = "unreg" -> cm.ok = 1 /\ OReplay(cmds, k + 1, Unregister(reg, cm.p))
      [] cm.k = "ocall" -> LET r == Call(reg, cm.p, SetOfSeq(cm.H)) IN
                             /\ cm.invoked = r.invoked /\ cm.by = r.by
                             /\ \/ cm.err = r.err
                                \* KNOWN DEFECT UnknownObjectNeverSent: the tree's root node always counts as a match
                                \/ /\ "UnknownObjectNeverSent" \in DevSet
                                   /\ r.err = S_org_freedesktop_DBus_Error_UnknownObject
                                   /\ cm.err = S_org_freedesktop_DBus_Error_UnknownMethod
                             \* handlers that were offered the call and unregister their own path inside the callback: the
                             \* list of handlers to offer it to was fixed before, the tree changes for what follows
                             /\ LET gone == IF "un" \in DOMAIN cm
                                            THEN {q \in DOMAIN reg : reg[q].id \in SetOfSeq(cm.un) /\ reg[q].id \in SetOfSeq(r.invoked)} ELSE {} IN
                                OReplay(cmds, k + 1, [q \in DOMAIN reg \ gone |-> reg[q]])
      [] cm.k = "children" -> /\ SetOfSeq(cm.kids) = Children(reg, cm.p) /\ Len(cm.kids) = Cardinality(Children(reg, cm.p))
                              /\ OReplay(cmds, k + 1, reg)
OTreeOK(c) == OReplay(c.cmds, 1, <<>>)

\* ---- pending-call histories (C17) ----
PCallOK(c) == PReplay(c.cmds, 1, PInit, DevSet)

\* ---- SASL conversations with a real server (C08) ----
AuthOK(c) == AReplay([allowed |-> SetOfSeq(c.allowed), sockUid |-> c.sockUid, serverUid |-> c.serverUid, sockCanReadKeyring |-> TRUE,
                      sockGids |-> IF "sockGids" \in DOMAIN c THEN c.sockGids ELSE <<>>],
                     c.cmds, 1, AInit)

\* ---- the activation helper's validation chain (C19): exit code, and the argument vector it executed ----
H == INSTANCE HelperOps
HelperOK(c) == LET o == H!HelperOutcome(c.name, c.dirs, LAMBDA p : p \in SetOfSeq(c.execs)) IN
               /\ c.code = o.code
               /\ (o.code = 0 => c.ran = 1 /\ c.argv = o.argv)
               /\ (o.code # 0 => c.ran = 0)

\* ---- several threads on one connection (C17): every call completes exactly once -- with its own reply, promptly once
\* the peer has written it (the bounded form of PendingCall.tla's EventuallyCompleted), or with the local timeout
\* error when the peer stays silent; notifications never exceed one; serials are non-zero and distinct ----
ThrSlack == 4000
ThrCallOK(c) ==
  /\ c.comp = 1 /\ c.n <= 1 /\ c.done >= 0 /\ c.ser # 0 /\ c.rs = c.ser
  /\ IF c.answered = 1 /\ c.wrote >= 0
     THEN c.kind = 2 /\ c.done - c.wrote <= ThrSlack
     ELSE c.kind = 3 /\ c.done - c.sent >= c.timeout - 50 /\ c.done - c.sent <= c.timeout + ThrSlack
PthrOK(c) == /\ \A i \in 1..Len(c.calls) : ThrCallOK(c.calls[i])
             /\ \A i, j \in 1..Len(c.calls) : i # j => c.calls[i].ser # c.calls[j].ser

\* ---- the same through a real connection and socket (C11): what a DBusConnection dispatched for a stream written in some
\* chunking (first chunk in the same write as the BEGIN line when libdbus is the server), and whether it gave up ----
TChunkOK(c) == LET fr == FrameL(c.b, LUN) IN c.out = fr.out /\ c.disc = B2I(fr.corrupt)

CaseOK(c) == CASE c.k = "bigarr" -> BigArrOK(c) [] c.k = "tchunk" -> TChunkOK(c) [] c.k = "pthr" -> PthrOK(c) [] c.k = "helper" -> HelperOK(c) [] c.k = "auth" -> AuthOK(c) [] c.k = "otree" -> OTreeOK(c) [] c.k = "pcall" -> PCallOK(c) [] c.k = "build" -> BuildOK(c) [] c.k = "edit" -> EditOK(c) [] c.k = "syn" -> SynOK(c) [] c.k = "dem" -> DemOK(c) [] c.k = "chunk" -> ChunkOK(c)
BadCases == {i \in 1..Len(Log) : ~CaseOK(Log[i])}
\* evaluated in Next (worker thread: honours -Xss), not in Init (main thread)
Init == x = 0
Next == x = 0 /\ x' = 1 /\ PrintT(<<"CASES", Len(Log)>>) /\ \A i \in BadCases : PrintT(<<"BADCASE", i>>)
=============================================================================

SPECIFICATION MCSpec
CONSTANTS
  Slot = {1,2}
  NameIds = {1}
  FlagSet = {0}
  MaxUnique = 4
  Uids = {0}
  Ops = {"names", "close", "send", "match", "hostile"}
  LimNames = 3
  LimMatch = 2
  LimReplies = 2
  LimCompleted = 3
  LimPerUser = 3
  SendTy = {4}
  SendSer = {1}
  SendRs = {0}
  SendFl = {0}
VIEW View
INVARIANTS AlwaysServed TypeOK QueueNoDup OnlyActiveQueued ReservedNamesNeverOwned NamesWithinLimit UniqueNamesDistinct UniqueNamesRecorded SenderIsOrigin RulesWithinLimit PendWithinLimit NoRulesForAbsent PendWellFormed AtMostOneCopy OnlyLiveRecipients ErrorXorDelivery CompletedWithinLimit PerUserWithinLimit
PROPERTIES KillChangesNothingElse DropOnlyBusSpeaks OwnerChangeSignalled UniqueNeverReused RefusalChangesNothing UnicastToOwnerOnly BroadcastOnlyToMatching SlotOnlyForDeliveredCall NoReplyOnlyOnExpiry
CHECK_DEADLOCK FALSE

SPECIFICATION Spec
CONSTANT Tags = {1,2}
INVARIANTS CompletesAtMostOnce CancelNeverNotified NotifiedExactlyWhenDone ReplyMatchesSerial SerialsDistinct
PROPERTY EventuallyDone
CHECK_DEADLOCK FALSE

-------------------------------- MODULE BusMC --------------------------------
(* Closed instance of Bus.tla for exhaustive exploration with small constants. *)
EXTENDS Bus

CONSTANTS NameIds,      \* well-known names used: subset of 1..3  (1 = com.example.A ...)
          FlagSet,      \* RequestName flag values tried
          MaxUnique,    \* how many unique names may ever be handed out (bounds reconnects)
          Uids,         \* credentials used by Connect
          Ops,          \* subset of {"names", "match", "send", "close", "query", "odd"}
          LimNames, LimMatch, LimReplies, LimCompleted, LimPerUser,
          SendTy, SendSer, SendRs, SendFl   \* alphabets of the routed test messages

NameOf(i) == <<99,111,109,46,101,120,97,109,112,108,101,46, 64 + i>>       \* "com.example." + A/B/C
UniqueOf(i) == <<58,49,46, 48 + i>>                                          \* ":1.<i>"
OddNames == {BUS, UniqueOf(1), <<110,111,100,111,116>>, <<>>}               \* bus name, a unique name, "nodot", ""
Names == {NameOf(i) : i \in NameIds}

\* rule texts: NameOwnerChanged subscription, everything from a sender, arg0 match
R_noc == <<116,121,112,101,61,39,115,105,103,110,97,108,39,44,109,101,109,98,101,114,61,39,78,97,109,101,79,119,110,101,114,67,104,97,110,103,101,100,39>>  \* type='signal',member='NameOwnerChanged'
R_all == <<>>
R_bad == <<102,111,111,61,98,97,114>>
RuleTexts == {R_noc, R_all, R_bad}

MCInit ==
  /\ cfg = [maxNames |-> LimNames, maxMatch |-> LimMatch, maxReplies |-> LimReplies, maxCompleted |-> LimCompleted,
            maxPerUser |-> LimPerUser, busUid |-> 0, policy |-> AllowAllPolicy, epoch |-> 0,
            maxMsgFds |-> 16, maxMsgSize |-> 70000, busPid |-> 1, clientPid |-> 2, guid |-> <<103>>,
            \* with "act" among the operations the first name has a service file
            act |-> IF "act" \in Ops THEN <<[n |-> NameOf(1), kind |-> "ok"]>> ELSE <<>>, maxPendingAct |-> 3]
  /\ Init0

NextUnique == UniqueOf(Cardinality(everNames) + 1)

TestMsg(ty, dst, ser, rs, fl) ==
  Msg(ty, <<>>, dst, ser, rs, IF ty \in {1, 4} THEN <<47,116>> ELSE <<>>, IF ty \in {1, 4} THEN <<116,46,73>> ELSE <<>>,
      IF ty \in {1, 4} THEN <<77>> ELSE <<>>, IF ty = 3 THEN <<116,46,69>> ELSE <<>>, <<>>, <<>>, fl, 0, "exact")

ReloadCfgs == {[cfg EXCEPT !.maxNames = L[1], !.maxMatch = L[2], !.maxReplies = L[3], !.maxCompleted = L[4], !.maxPerUser = L[5]] :
                  L \in {<<LimNames, LimMatch, LimReplies, LimCompleted, LimPerUser>>, <<1, 1, 1, 1, 1>>,
                         <<LimNames, 1, LimReplies, 1, LimPerUser>>}}

MCNext ==
  \E s \in Slot :
    \/ \E u \in Uids : Connect(s, u, FALSE)
    \/ "fd" \in Ops /\ \E u \in Uids : Connect(s, u, TRUE)
    \* descriptors (tokens 1, 2; a token can be attached only while it is nowhere in the system)
    \/ "fd" \in Ops /\ fdx.cap[s] /\ \E att \in {<<>>, <<1>>, <<2>>, <<1, 2>>}, nfd \in 0..2, ty \in SendTy, d \in Names \cup {<<>>} \cup {uname[x] : x \in Slot} :
           LET pool == fdx.held[s] \o att IN
           /\ (d # <<>> \/ ty = 4) /\ nfd <= Len(pool) /\ Len(pool) <= 2
           /\ \A i \in 1..Len(att) : \A x \in Slot : \A j \in 1..Len(fdx.held[x]) : fdx.held[x][j] # att[i]
           /\ Send(s, [TestMsg(ty, d, 1, 0, 1) EXCEPT !.nfd = nfd, !.fds = SubSeq(pool, 1, nfd)], SubSeq(pool, nfd + 1, Len(pool)))
    \/ Cardinality(everNames) < MaxUnique /\ Hello(s, 1, 0, NextUnique)
    \/ cst[s] = "active" /\ Hello(s, 1, 0, <<>>)
    \/ "names" \in Ops /\ \E n \in Names, f \in FlagSet : RequestName(s, 1, 0, n, f)
    \/ "names" \in Ops /\ \E n \in Names : ReleaseName(s, 1, 0, n)
    \/ "odd" \in Ops /\ \E n \in OddNames : RequestName(s, 1, 0, n, 0) \/ ReleaseName(s, 1, 0, n)
    \/ "query" \in Ops /\ \E n \in Names \cup {BUS}, k \in {"owner", "has", "queued", "list", "uid", "pid", "id", "acts"} : Query(s, 1, 0, k, n)
    \/ "match" \in Ops /\ \E t \in RuleTexts : AddMatch(s, 1, 0, t) \/ RemoveMatch(s, 1, 0, t)
    \/ "send" \in Ops /\ \E ty \in SendTy, d \in Names \cup {<<>>} \cup {uname[x] : x \in Slot}, ser \in SendSer, rs \in SendRs, fl \in SendFl :
           /\ (d # <<>> \/ ty = 4)
           /\ Send(s, TestMsg(ty, d, ser, IF ty \in {2,3} THEN rs ELSE 0, fl), <<>>)
    \/ "full" \in Ops /\ \E ty \in SendTy, d \in Names \cup {uname[x] : x \in Slot}, ser \in SendSer, rs \in SendRs, fl \in SendFl :
           SendFull(s, TestMsg(ty, d, ser, IF ty \in {2,3} THEN rs ELSE 0, fl), <<>>)      \* the recipient is not reading
    \/ "close" \in Ops /\ ClientClose(s)
    \* the configuration is read again: every limit switches between the configured value and 1
    \/ "reload" \in Ops /\ \E c \in ReloadCfgs : c # cfg /\ ReloadConfig(s, 1, 0, c)
    \/ "hostile" \in Ops /\ Corrupt(s)          \* any byte string that is not a valid message
    \/ "act" \in Ops /\ \E n \in Names : StartService(s, 2, 0, n, 0)
    \/ "act" \in Ops /\ \E i \in 1..Len(act.pend) : ChildExit(act.pend[i].n, 1, FALSE) \/ ActTimeout(act.pend[i].n)
    \/ \E order \in [1..Cardinality(NamesOf(queue, s)) -> NamesOf(queue, s)] : Drop(s, order)
    \/ "send" \in Ops /\ \E i \in 1..Len(pend) : ExpirePending(i)

MCSpec == MCInit /\ [][MCNext]_vars
View == <<cfg, cst, dying, uid, uname, everNames, queue, rules, pend, mon, fdx, act>>

\* ------------------------------------------------------------------ invariants
TypeOK ==
  /\ \A s \in Slot : cst[s] \in {"absent", "incomplete", "active", "monitor"}
  /\ \A n \in DOMAIN queue : queue[n] # <<>>

\* C04
QueueNoDup == \A n \in DOMAIN queue : \A i, j \in 1..Len(queue[n]) : i # j => queue[n][i].s # queue[n][j].s
OnlyActiveQueued == \A n \in DOMAIN queue : \A i \in 1..Len(queue[n]) : cst[queue[n][i].s] = "active"
ReservedNamesNeverOwned == \A n \in DOMAIN queue : NameClass(n) = "ok"
NamesWithinLimit == \A s \in Slot : cst[s] = "active" => HeldCount(queue, s) <= cfg.maxNames
\* C03
UniqueNamesDistinct == \A a, b \in Slot : a # b /\ cst[a] \in {"active", "monitor"} /\ cst[b] \in {"active", "monitor"} => uname[a] # uname[b]
UniqueNamesRecorded == \A s \in Slot : cst[s] \in {"active", "monitor"} => uname[s] \in everNames /\ UniqueNameValid(uname[s])
SenderIsOrigin == \A i \in 1..Len(out) : LET m == out[i].m IN
                     IF m.org = 0 THEN m.snd \in {BUS, <<>>} ELSE m.snd \in everNames \cup {S_not_active_yet}
\* C13
RulesWithinLimit == \A s \in Slot : Len(rules[s]) <= cfg.maxMatch
PendWithinLimit == \A s \in Slot : CountPend(pend, s) <= cfg.maxReplies
CompletedWithinLimit == NumCompleted <= cfg.maxCompleted
PerUserWithinLimit == \A u \in Uids : NumOfUser(u) <= cfg.maxPerUser
\* C13 with limits that change while the bus runs (ReloadConfig): what exists may exceed a lowered limit, but nothing
\* ever GROWS at or above the limit in force when the request is processed
GrowthOnlyBelowLimit ==
  [][/\ \A s \in Slot : cst[s] = "active" /\ cst'[s] = "active" /\ HeldCount(queue', s) > HeldCount(queue, s)
                          => HeldCount(queue, s) < cfg.maxNames
     /\ \A s \in Slot : Len(rules'[s]) > Len(rules[s]) => Len(rules[s]) < cfg.maxMatch
     /\ \A s \in Slot : CountPend(pend', s) > CountPend(pend, s) => CountPend(pend, s) < cfg.maxReplies
     /\ NumCompleted' > NumCompleted => NumCompleted < cfg.maxCompleted
     /\ \A u \in Uids : NumOfUser(u)' > NumOfUser(u) => NumOfUser(u) < cfg.maxPerUser]_vars
\* reloading evicts nothing and tells nobody but the caller
ReloadTouchesOnlyCfg ==
  [][cfg' # [cfg EXCEPT !.epoch = cfg'.epoch] => /\ UNCHANGED <<cst, uname, queue, rules, pend, mon, act, fdx>>
                                                 /\ \A i \in 1..Len(out') : out'[i].m.org = 0 \/ out'[i].to # out'[i].m.org]_vars
\* C07 / C18
NoRulesForAbsent == \A s \in Slot : cst[s] # "active" => rules[s] = <<>>
\* C09
PendWellFormed == \A i \in 1..Len(pend) : cst[pend[i].caller] = "active" /\ pend[i].callee \in Slot \cup {NoSlot}

\* C05 / C07: what one step stages
ClientMsgs(o) == {i \in 1..Len(o) : o[i].m.org # 0}
\* (one action routes one client message -- except the release of held messages when their service appears)
AtMostOneCopy == "act" \in Ops \/ \A i, j \in ClientMsgs(out) : i # j => out[i].to # out[j].to
\* a client's unicast message goes to the connection that owned the name when the step began... (checked as an
\* action property below); here: it never goes to a connection that neither is active nor a monitor
OnlyLiveRecipients == \A i \in 1..Len(out) : out[i].to \in Slot
ErrorXorDelivery == \A i \in ClientMsgs(out) : out[i].m.dst # <<>> /\ out[i].m.ty = 1 =>
                       ~\E j \in 1..Len(out) : out[j].m.org = 0 /\ out[j].m.ty = 3 /\ out[j].m.rs = out[i].m.ser
                                                 /\ out[j].to = out[i].m.org /\ out[j].m.err # E_NoReply
\* unicast goes to the primary owner at the time of processing, or to holders of eavesdropping rules / monitors
UnicastToOwnerOnly ==
  [][\A i \in ClientMsgs(out') : LET m == out'[i].m IN m.dst # <<>> =>
         \/ out'[i].to = Resolve(queue, m.dst)
         \* (a held message: to the connection that has just taken the name it was waiting for)
         \/ /\ \E k \in 1..Len(act.pend) : act.pend[k].n = m.dst
            /\ m.dst \in DOMAIN queue' /\ out'[i].to = queue'[m.dst][1].s
         \/ cst[out'[i].to] = "monitor"
         \/ \E k \in 1..Len(rules[out'[i].to]) : rules[out'[i].to][k].eav]_vars
\* broadcasts only reach holders of a matching rule (C07)
BroadcastOnlyToMatching ==
  [][\A i \in ClientMsgs(out') : LET m == out'[i].m  r == out'[i].to IN m.dst = <<>> =>
         \/ cst[r] = "monitor"
         \/ \E k \in 1..Len(rules[r]) : RuleMatches(rules[r][k], MM(m), PrimNames(queue, uname, m.org), FALSE, {})]_vars
\* a reply slot is opened only by a delivered method call that expects a reply (C09)
SlotOnlyForDeliveredCall ==
  [][Len(pend') > Len(pend) =>
        \E i \in ClientMsgs(out') : out'[i].m.ty = 1 /\ (out'[i].m.fl % 2) = 0
                                     /\ pend'[Len(pend')] = [caller |-> out'[i].m.org, callee |-> out'[i].to, ser |-> out'[i].m.ser, born |-> 0, orph |-> 0]]_vars
\* NoReply is produced only by expiry, exactly for the expired slot (C09)
NoReplyOnlyOnExpiry ==
  [][(\E j \in 1..Len(out') : out'[j].m.org = 0 /\ out'[j].m.err = E_NoReply) => Len(pend') = Len(pend) - 1]_vars

\* ------------------------------------------------------------------ action properties (C04)
PrimarySlot(qs, n) == IF n \in DOMAIN qs THEN qs[n][1].s ELSE NoSlot
Staged(o, r, mem, n) == \E i \in 1..Len(o) : o[i].to = r /\ o[i].m.mem = mem /\ o[i].m.org = 0 /\ o[i].m.args[1].v = n
CountStaged(o, mem, n) == Cardinality({i \in 1..Len(o) : o[i].m.mem = mem /\ o[i].m.org = 0 /\ o[i].m.args[1].v = n})
\* a change of primary owner is announced by NameLost to the old and NameAcquired to the new owner, and nothing
\* of the sort is sent when the primary owner does not change (at most one change per name and step, except in
\* disconnect processing where the name can only change hands once as well)
OwnerChangeSignalled ==
  [][\A n \in Names :
       LET o == PrimarySlot(queue, n)  w == PrimarySlot(queue', n) IN
       IF o = w THEN CountStaged(out', S_NameLost, n) = 0 /\ CountStaged(out', S_NameAcquired, n) = 0
       ELSE /\ (o # NoSlot => Staged(out', o, S_NameLost, n)) /\ (w # NoSlot => Staged(out', w, S_NameAcquired, n))
            /\ CountStaged(out', S_NameLost, n) = (IF o = NoSlot THEN 0 ELSE 1)
            /\ CountStaged(out', S_NameAcquired, n) = (IF w = NoSlot THEN 0 ELSE 1)]_vars
\* unique names are never reused (C03)
UniqueNeverReused == [][\A s \in Slot : uname'[s] # uname[s] /\ uname'[s] # <<>> => uname'[s] \notin everNames]_vars
\* a refused request changes nothing (C13): when the reply is LimitsExceeded the registry and rules are untouched
RefusalChangesNothing ==
  \* (a held message released when its service appears may be refused on its own; that is not the acting request)
  [][((\E i \in 1..Len(out') : out'[i].m.err = E_LimitsExceeded) /\ act'.pend = act.pend)
       \* (a refused message that was itself an awaited reply still uses up the expectation it answers)
       => queue' = queue /\ rules' = rules /\ cst' = cst /\ act' = act
          /\ (pend' = pend \/ \E k \in 1..Len(pend) : pend' = RemoveAt(pend, k))]_vars
\* a message refused with LimitsExceeded (reply table or recipient queue full) never leaves a new reply expectation
RefusedCallLeavesNoSlot ==
  [][(\E i \in 1..Len(out') : out'[i].m.err = E_LimitsExceeded /\ out'[i].m.org = 0 /\ act'.pend = act.pend)
       => Len(pend') <= Len(pend)]_vars
\* ---- C15: descriptors
\* a message carrying descriptors only ever goes to connections that negotiated descriptor passing, with exactly the
\* descriptors it claimed
FdOnlyToCapable == \A i \in 1..Len(out) : out[i].m.fds # <<>> => fdx.cap[out[i].to] /\ Len(out[i].m.fds) = out[i].m.nfd
\* a descriptor is never both handed on and still held; no descriptor is held twice; a gone connection holds none
HeldTokens == UNION {{fdx.held[x][j] : j \in 1..Len(fdx.held[x])} : x \in Slot}
FdHeldOnce == /\ \A x \in Slot : \A i, j \in 1..Len(fdx.held[x]) : i # j => fdx.held[x][i] # fdx.held[x][j]
              /\ \A x, y \in Slot : x # y => \A i \in 1..Len(fdx.held[x]) : \A j \in 1..Len(fdx.held[y]) : fdx.held[x][i] # fdx.held[y][j]
              /\ \A x \in Slot : cst[x] = "absent" => fdx.held[x] = <<>>
FdNotBoth == \A i \in 1..Len(out) : \A k \in 1..Len(out[i].m.fds) : out[i].m.fds[k] \notin HeldTokens
\* ---- C10: what a misbehaving client can cause
\* the step in which the bus gives up on a connection (invalid bytes, a monitor or unregistered client speaking)
\* changes nothing but that connection's fate; only monitors may be shown the offending (valid) message
KillChangesNothingElse ==
  [][\A s \in Slot : dying'[s] /\ ~dying[s] =>
        /\ queue' = queue /\ rules' = rules /\ cst' = cst /\ pend' = pend /\ uname' = uname
        /\ \A i \in 1..Len(out') : cst[out'[i].to] = "monitor"]_vars
\* when the connection is finally dropped the others only hear from the bus itself
DropOnlyBusSpeaks ==
  [][(\E s \in Slot : cst[s] # "absent" /\ cst'[s] = "absent") =>
        \A i \in 1..Len(out') : out'[i].m.org = 0 /\ out'[i].m.snd = BUS]_vars
\* whatever the others did, a registered live client's call to the bus is served
AlwaysServed == \A s \in Slot : cst[s] = "active" /\ ~dying[s] => ENABLED Query(s, 1, 0, "ping", <<>>)
\* ---- C19: activation
ActBound == \A n \in DOMAIN act.spawned : act.spawned[n] <= 2
PendingNames == {act.pend[i].n : i \in 1..Len(act.pend)}
EntriesOf(n) == act.pend[PIdx(act.pend, n)].entries
\* a start is only ever under way for a name nobody owns, once per name, within the limit on waiting requests
PendingOnlyForUnowned == \A i \in 1..Len(act.pend) : act.pend[i].n \notin DOMAIN queue /\ act.pend[i].entries # <<>>
OnePendingPerName == \A i, j \in 1..Len(act.pend) : i # j => act.pend[i].n # act.pend[j].n
WaitersWithinLimit == SumEntries(act.pend, 1) <= cfg.maxPendingAct
\* a process is started only when no start of that name is under way, and then exactly one
SpawnAtMostOncePerActivation ==
  [][\A n \in Names : SpawnCount(n)' # SpawnCount(n) =>
        /\ n \notin PendingNames /\ n \in PendingNames' /\ n \notin DOMAIN queue
        /\ SpawnCount(n)' = SpawnCount(n) + 1]_vars
\* the service took its name: each held message of a sender that is still there goes to the new owner exactly
\* once, in the order of arrival (allow-all policy: nothing is refused), and each StartServiceByName caller is told 1
HeldOf(n) == SelectSeq(EntriesOf(n), LAMBDA e : e.auto /\ cst[e.s] = "active" /\ uname[e.s] = e.un /\ ~dying[e.s])
HeldReleasedOnceInOrder ==
  [][\A n \in PendingNames : (n \notin PendingNames' /\ n \in DOMAIN queue') =>
        LET w == queue'[n][1].s
            got == SelectSeq(out', LAMBDA x : x.to = w /\ x.m.org # 0 /\ x.m.dst = n)
            held == HeldOf(n) IN
        \* (senders that are closing may or may not still be served; the gate may refuse a message -- e.g. a call
        \* whose serial is already awaited from the same peer -- and then its sender gets the error instead)
        /\ Len(got) <= Len(SelectSeq(EntriesOf(n), LAMBDA e : e.auto))
        /\ \A i \in 1..Len(held) :
              \/ \E j \in 1..Len(got) : got[j].m = held[i].m
              \/ \E j \in 1..Len(out') : out'[j].to = held[i].s /\ out'[j].m.ty = 3 /\ out'[j].m.rs = held[i].m.ser /\ out'[j].m.org = 0
        /\ \A i, j \in 1..Len(got) : i < j =>
              \E a, b \in 1..Len(EntriesOf(n)) : a < b /\ EntriesOf(n)[a].m = got[i].m /\ EntriesOf(n)[b].m = got[j].m
        /\ \A k \in 1..Len(EntriesOf(n)) : LET e == EntriesOf(n)[k] IN
              (~e.auto /\ cst[e.s] = "active" /\ uname[e.s] = e.un /\ ~dying[e.s]) =>
                 \E j \in 1..Len(out') : out'[j].to = e.s /\ out'[j].m.ty = 2 /\ out'[j].m.rs = e.m.ser
                                           /\ out'[j].m.args = <<AU32(1)>>]_vars
\* the start failed: every waiter that is still there gets exactly one error for its message, nobody else hears of it
FailureReachesEveryWaiter ==
  [][\A n \in PendingNames : (n \notin PendingNames' /\ n \notin DOMAIN queue') =>
        /\ \A k \in 1..Len(EntriesOf(n)) : LET e == EntriesOf(n)[k] IN
              (cst[e.s] = "active" /\ uname[e.s] = e.un /\ ~dying[e.s]) =>
                 Cardinality({j \in 1..Len(out') : out'[j].to = e.s /\ out'[j].m.ty = 3 /\ out'[j].m.rs = e.m.ser}) >= 1
        /\ \A j \in 1..Len(out') : out'[j].m.ty = 3 /\ out'[j].m.org = 0
        /\ Len(out') <= Len(EntriesOf(n))]_vars
=============================================================================

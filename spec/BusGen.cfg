SPECIFICATION GenSpec
CONSTANTS
  Slot = {1,2,3}
  NameIds = {1,2}
  FlagSet = {0,1,2,3,4,5,6,7}
  MaxUnique = 3
  Uids = {0}
  Ops = {"names", "match", "send"}
  LimNames = 100
  LimMatch = 100
  LimReplies = 100
  LimCompleted = 100
  LimPerUser = 100
  SendTy = {}
  SendSer = {}
  SendRs = {}
  SendFl = {}
  GenLen = 12
INVARIANT GenEmit
CHECK_DEADLOCK FALSE

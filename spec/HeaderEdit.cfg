SPECIFICATION Spec
CONSTANTS Codes = {1,2,3,5}
  Unknown = {200, 201}
  Vals = {1,2,3}
  MaxEdits = 4
INVARIANTS DecodeAgrees NoDuplicates FixedUntouched
CHECK_DEADLOCK FALSE

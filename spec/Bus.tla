--------------------------------- MODULE Bus ---------------------------------
(* The message bus (dbus-daemon) as a state machine.                          *)
(*                                                                            *)
(* One action = the processing of one incoming message by the single-threaded *)
(* daemon (bus_dispatch and what it calls, inside one BusTransaction), or one *)
(* main-loop callback (disconnect handling, a timer).  Each action leaves in   *)
(* `out` the messages the daemon stages for its clients, in staging order.    *)
(*                                                                            *)
(* All text is a byte sequence (TLC strings are atomic).  Actions take the    *)
(* semantic content of the request as parameters; BusTrace.tla computes them  *)
(* from the bytes a real client sent, BusMC.tla draws them from small sets.   *)
EXTENDS Naturals, Integers, Sequences, FiniteSets, TLC, Syntax, Strs, MatchOps, PolicyOps

CONSTANTS Slot            \* connection slots, a finite set of positive integers (reused after a drop)

VARIABLES
  cfg,        \* configuration record: limits, policy, activatable names (changes only at Reset/Reload)
  cst,        \* [Slot -> "absent" | "incomplete" | "active" | "monitor"]
  dying,      \* [Slot -> BOOLEAN]  socket closed (by the client or by the daemon), drop not yet processed
  uid,        \* [Slot -> Nat] credential of the connection
  uname,      \* [Slot -> bytes] unique name (<<>> before Hello)
  everNames,  \* history: every unique name ever handed out
  queue,      \* [names with owners -> Seq of [s, ar, dnq]]   head = primary owner
  rules,      \* [Slot -> Seq of parsed match rules] in order of addition
  pend,       \* Seq of [caller, callee, ser, born, orph]  pending replies, oldest first (born/orph: cfg.epoch
              \* when recorded / when the callee went away, used only for the timing rules of the trace spec)
  mon,        \* [Slot -> Seq of rules] filters of monitors
  act,        \* activation: [pend: Seq of [n, entries: Seq of [auto, s, un, m], born] (one per name being started, oldest
              \* first), spawned: [name -> how many times a service process was started for it]]
  fdx,        \* [cap: [Slot -> BOOLEAN] fd passing negotiated, held: [Slot -> Seq of fd tokens received, not yet consumed]]
  out         \* Seq of [to, m] : what the last action staged

vars == <<cfg, cst, dying, uid, uname, everNames, queue, rules, pend, mon, fdx, act, out>>

BUS == S_org_freedesktop_DBus
NoSlot == 0

\* ------------------------------------------------------------------ messages
\* org: ghost, slot that produced the message, 0 for the bus.  ser = 0 means "some non-zero serial".
\* cmp: how an observation is compared: "exact"; "set1" (first argument is a set); "errtext" (error: only
\*      the name matters, the body is one string of unspecified text)
Msg(ty, snd, dst, ser, rs, path, ifc, mem, err, sig, args, fl, org, cmp) ==
  [ty |-> ty, snd |-> snd, dst |-> dst, ser |-> ser, rs |-> rs, path |-> path, ifc |-> ifc, mem |-> mem,
   err |-> err, sig |-> sig, args |-> args, fl |-> fl, org |-> org, cmp |-> cmp, nfd |-> 0, fds |-> <<>>,
   unk |-> <<>>, ci |-> FALSE]

AStr(v)  == [t |-> cS, v |-> v]
AU32(v)  == [t |-> cU, v |-> v]
ABool(v) == [t |-> cB, v |-> v]
AStrs(v) == [t |-> cA, v |-> v]
SigS == <<cS>>  SigU == <<cU>>  SigB == <<cB>>  SigAS == <<cA, cS>>  SigSSS == <<cS, cS, cS>>

E_Failed == S_org_freedesktop_DBus_Error_Failed
E_AccessDenied == S_org_freedesktop_DBus_Error_AccessDenied
E_LimitsExceeded == S_org_freedesktop_DBus_Error_LimitsExceeded
E_InvalidArgs == S_org_freedesktop_DBus_Error_InvalidArgs
E_NameHasNoOwner == S_org_freedesktop_DBus_Error_NameHasNoOwner
E_ServiceUnknown == S_org_freedesktop_DBus_Error_ServiceUnknown
E_MatchRuleInvalid == S_org_freedesktop_DBus_Error_MatchRuleInvalid
E_MatchRuleNotFound == S_org_freedesktop_DBus_Error_MatchRuleNotFound
E_UnknownMethod == S_org_freedesktop_DBus_Error_UnknownMethod
E_UnknownObject == S_org_freedesktop_DBus_Error_UnknownObject
E_UnknownInterface == S_org_freedesktop_DBus_Error_UnknownInterface
E_NoReply == S_org_freedesktop_DBus_Error_NoReply
E_NotSupported == S_org_freedesktop_DBus_Error_NotSupported
E_NoMemory == S_org_freedesktop_DBus_Error_NoMemory

\* destination of the driver's replies: replies are made from the call, whose sender the bus stamped as
\* ":not.active.yet" for a connection that has not said Hello (named: RepliesToUnregisteredCarryPlaceholder)
DstOf(s) == IF cst[s] \in {"active", "monitor"} THEN uname[s] ELSE S_not_active_yet
Reply(dst, rs, sig, args, cmp) == Msg(2, BUS, dst, 0, rs, <<>>, <<>>, <<>>, <<>>, sig, args, 1, 0, cmp)
ErrReply(dst, rs, ename) == Msg(3, BUS, dst, 0, rs, <<>>, <<>>, <<>>, ename, SigS, <<>>, 1, 0, "errtext")
BusSignal(dst, mem, sig, args) ==
  Msg(4, BUS, dst, 0, 0, P_org_freedesktop_DBus, BUS, mem, <<>>, sig, args, 1, 0, "exact")
To(s, m) == [to |-> s, m |-> m]

\* ------------------------------------------------------------------ registry helpers
PutQ(qs, n, q) == IF q = <<>> THEN [x \in (DOMAIN qs) \ {n} |-> qs[x]]
                  ELSE [x \in (DOMAIN qs) \cup {n} |-> IF x = n THEN q ELSE qs[x]]
QOf(qs, n) == IF n \in DOMAIN qs THEN qs[n] ELSE <<>>
InQ(q, c) == \E k \in 1..Len(q) : q[k].s = c
Without(q, c) == SelectSeq(q, LAMBDA e : e.s # c)
After1(q, E) == <<q[1], E>> \o Tail(q)
ReplaceEntry(q, E) == [k \in 1..Len(q) |-> IF q[k].s = E.s THEN E ELSE q[k]]
HeldCount(qs, c) == 1 + Cardinality({n \in DOMAIN qs : InQ(qs[n], c)})
OwnerSlotOfUnique(cs, n) == IF \E s \in Slot : cs[s] = "active" /\ uname[s] = n
                            THEN CHOOSE s \in Slot : cs[s] = "active" /\ uname[s] = n ELSE NoSlot
\* the connection a name resolves to (unique or well-known), or NoSlot
Resolve(qs, n) == IF n \in DOMAIN qs THEN qs[n][1].s ELSE OwnerSlotOfUnique(cst, n)
\* names of which s is the primary owner (match rules' sender= / destination=); un = unique-name table
PrimNames(qs, un, s) == IF s = NoSlot THEN {BUS} ELSE {un[s]} \cup {n \in DOMAIN qs : qs[n][1].s = s}
\* names s owns or is queued for (policy send_destination / receive_sender)
HeldNames(qs, un, s) == IF s = NoSlot THEN {BUS} ELSE {un[s]} \cup {n \in DOMAIN qs : InQ(qs[n], s)}
Flags(f) == [ar |-> (f % 2) = 1, re |-> ((f \div 2) % 2) = 1, dnq |-> ((f \div 4) % 2) = 1]
Privileged(s) == uid[s] = 0 \/ uid[s] = cfg.busUid
RECURSIVE SeqOfSet(_)
SeqOfSet(S) == IF S = {} THEN <<>> ELSE LET x == CHOOSE y \in S : TRUE IN <<x>> \o SeqOfSet(S \ {x})
Cred(s) == [uid |-> uid[s]]

\* ------------------------------------------------------------------ routing building blocks
MM(m) == [ty |-> m.ty, ifc |-> m.ifc, mem |-> m.mem, path |-> m.path, dst |-> m.dst, args |-> m.args]

\* W: a "world" record [cs, un, qs, rl, mn] = connection states, unique names, registry, rule table, monitor
\* filters, against which a message is routed (actions route against the state they have just produced).
\* (pol: the security policy in force -- part of the world because ReloadConfig answers under the NEW policy)
World(cs, un, qs, rl, mn) == [cs |-> cs, un |-> un, qs |-> qs, rl |-> rl, mn |-> mn, pol |-> cfg.policy]
Now == World(cst, uname, queue, rules, mon)

\* monitors that want m.  A connection is served copies as soon as it holds monitor filters (they are installed
\* before BecomeMonitor releases the caller's names); the addressed recipient itself never gets a second copy.
Capture(W, m, src, adr) ==
  LET R == {r \in Slot : /\ W.mn[r] # <<>> /\ r # adr
                         /\ \E i \in 1..Len(W.mn[r]) :
                               RuleMatches([W.mn[r][i] EXCEPT !.eav = TRUE], MM(m),
                                           PrimNames(W.qs, W.un, src), adr # NoSlot, PrimNames(W.qs, W.un, adr))}
      sq == SeqOfSet(R) IN
  \* (nothing is captured at all while the list of established monitors is empty)
  IF \E r \in Slot : W.cs[r] = "monitor" THEN [i \in 1..Len(sq) |-> To(sq[i], m)] ELSE <<>>

\* connections holding a match rule that matches m (the addressed recipient is served separately)
RuleRecipients(W, m, src, adr) ==
  {r \in Slot : /\ W.cs[r] = "active" /\ r # adr
                /\ \E i \in 1..Len(W.rl[r]) :
                      RuleMatches(W.rl[r][i], MM(m), PrimNames(W.qs, W.un, src), adr # NoSlot,
                                  PrimNames(W.qs, W.un, adr))}

\* a message made by the bus for slot s: captured, then subject to the receive policy of s (silently dropped
\* if refused; monitors then see the made-up error too)
FromBus(W, s, m) ==
  Capture(W, m, NoSlot, s)
  \o (IF W.cs[s] # "active" \/ CanReceive(W.pol, Cred(s), m, m.rs # 0, {BUS}, FALSE)
      THEN <<To(s, m)>>
      ELSE Capture(W, ErrReply(BUS, m.ser, E_AccessDenied), NoSlot, NoSlot))

\* a broadcast made by the bus (NameOwnerChanged ...)
BroadcastFromBus(W, m) ==
  LET R == RuleRecipients(W, m, NoSlot, NoSlot)
      sq == SeqOfSet(R)
      one(r) == IF CanReceive(W.pol, Cred(r), m, FALSE, {BUS}, FALSE) THEN <<To(r, m)>>
                ELSE Capture(W, ErrReply(BUS, m.ser, E_AccessDenied), NoSlot, NoSlot)
      RECURSIVE go(_)
      go(i) == IF i > Len(sq) THEN <<>> ELSE one(sq[i]) \o go(i + 1) IN
  Capture(W, m, NoSlot, NoSlot) \o go(1)

NOC(n, old, new) == BusSignal(<<>>, S_NameOwnerChanged, SigSSS, <<AStr(n), AStr(old), AStr(new)>>)
UNm(W, s) == IF s = NoSlot THEN <<>> ELSE W.un[s]
\* signals for a change of primary owner of n from slot o to slot w (either may be NoSlot), in the order the
\* daemon stages them: NameLost(o), NameOwnerChanged, NameAcquired(w)
OwnerChange(W, n, o, w) ==
  (IF o # NoSlot THEN FromBus(W, o, BusSignal(W.un[o], S_NameLost, SigS, <<AStr(n)>>)) ELSE <<>>)
  \o BroadcastFromBus(W, NOC(n, UNm(W, o), UNm(W, w)))
  \o (IF w # NoSlot THEN FromBus(W, w, BusSignal(W.un[w], S_NameAcquired, SigS, <<AStr(n)>>)) ELSE <<>>)

\* ------------------------------------------------------------------ name ownership (bus/services.c)
NameClass(n) == IF ~BusNameValid(n) THEN "invalid"
                ELSE IF n[1] = cColon THEN "unique"
                ELSE IF n = BUS THEN "bus" ELSE "ok"

AcquireRes(q, code, o, w) == [q |-> q, code |-> code, o |-> o, w |-> w]
Acquire(q, c, f) ==
  LET E == [s |-> c, ar |-> f.ar, dnq |-> f.dnq] IN
  IF q = <<>> THEN AcquireRes(<<E>>, 1, NoSlot, c)
  ELSE LET h == q[1] IN
   IF h.s = c THEN AcquireRes(<<E>> \o Tail(q), 4, NoSlot, NoSlot)
   ELSE IF f.dnq /\ (~h.ar \/ ~f.re) THEN AcquireRes(Without(q, c), 3, NoSlot, NoSlot)
   ELSE IF ~f.dnq /\ (~f.re \/ ~h.ar) THEN
        AcquireRes(IF f.re THEN After1(Without(q, c), E)
                   ELSE IF InQ(q, c) THEN ReplaceEntry(q, E) ELSE Append(q, E), 2, NoSlot, NoSlot)
   ELSE LET q1 == After1(Without(q, c), E) IN
        AcquireRes(IF h.dnq THEN Tail(q1) ELSE <<q1[2], q1[1]>> \o SubSeq(q1, 3, Len(q1)), 1, h.s, c)

NoAct == [pend |-> <<>>, spawned |-> <<>>]
\* ------------------------------------------------------------------ initial state, connections
InitCfg(c) == cfg = c
Init0 ==
  /\ cst = [s \in Slot |-> "absent"] /\ dying = [s \in Slot |-> FALSE]
  /\ uid = [s \in Slot |-> 0] /\ uname = [s \in Slot |-> <<>>] /\ everNames = {}
  /\ queue = <<>> /\ rules = [s \in Slot |-> <<>>] /\ pend = <<>> /\ mon = [s \in Slot |-> <<>>]
  /\ fdx = [cap |-> [s \in Slot |-> FALSE], held |-> [s \in Slot |-> <<>>]]
  /\ act = NoAct
  /\ out = <<>>

Connect(s, u, fdcap) ==
  /\ cst[s] = "absent"
  /\ cst' = [cst EXCEPT ![s] = "incomplete"] /\ uid' = [uid EXCEPT ![s] = u]
  /\ fdx' = [cap |-> [fdx.cap EXCEPT ![s] = fdcap], held |-> [fdx.held EXCEPT ![s] = <<>>]]
  /\ out' = <<>>
  /\ UNCHANGED <<act, cfg, dying, uname, everNames, queue, rules, pend, mon>>

\* the client closes its socket; the daemon notices later (Drop)
ClientClose(s) ==
  /\ cst[s] # "absent" /\ ~dying[s]
  /\ dying' = [dying EXCEPT ![s] = TRUE]
  /\ out' = <<>>
  /\ UNCHANGED <<act, fdx, cfg, cst, uid, uname, everNames, queue, rules, pend, mon>>

NumCompleted == Cardinality({x \in Slot : cst[x] \in {"active", "monitor"}})
NumOfUser(u) == Cardinality({x \in Slot : cst[x] \in {"active", "monitor"} /\ uid[x] = u})
\* Messages a connection had already delivered to the daemon are still dispatched after its transport was closed
\* (dbus_connection_close leaves the incoming queue alone; processing stops with the Disconnected message), so
\* `dying` does not stop a connection from being served: how many of its messages were already read is the
\* environment's business (BusTrace.TSkip).
CanTalk(s) == cst[s] \in {"incomplete", "active"}

\* ------------------------------------------------------------------ calls to the bus driver
\* the method call as the daemon sees it after stamping the sender
DriverCall(s, ser, ifc, mem, sig, args, fl) ==
  Msg(1, IF cst[s] = "active" THEN uname[s] ELSE S_not_active_yet, BUS, ser, 0, P_org_freedesktop_DBus, ifc, mem,
      <<>>, sig, args, fl, s, "exact")

DriverGate(s, call) ==
  IF cst[s] = "incomplete" THEN call.mem = S_Hello /\ call.ifc = BUS
  ELSE CanSend(cfg.policy, Cred(s), call, FALSE, FALSE, {BUS})

\* eavesdroppers' copies of a message addressed to the driver (staged after the driver's own output, matched
\* against the state the call produced); refusals by policy are silent
EavesCopies(W, s, m, adr) ==
  LET R == RuleRecipients(W, m, s, adr)
      sq == SeqOfSet(R)
      ok(r) == /\ CanSend(W.pol, Cred(s), m, FALSE, TRUE, HeldNames(W.qs, W.un, r))
               /\ CanReceive(W.pol, Cred(r), m, FALSE, HeldNames(W.qs, W.un, s), m.dst # <<>> /\ r # adr)
      one(r) == IF ok(r) THEN <<To(r, m)>> ELSE Capture(W, ErrReply(UNm(W, s), m.ser, E_AccessDenied), NoSlot, s)
      RECURSIVE go(_)
      go(i) == IF i > Len(sq) THEN <<>> ELSE one(sq[i]) \o go(i + 1) IN
  go(1)

\* reply (or nothing when the caller set NO_REPLY_EXPECTED) -- bus_driver_send_ack_reply and friends honour
\* the flag only for the ack-style replies; replies carrying data are always sent
NoReplyFlag(call) == (call.fl % 2) = 1

\* A driver call that changes nothing: `rep` is the reply (or error) message for the caller
Answer(s, call, rep) ==
  /\ out' = Capture(Now, call, s, NoSlot) \o FromBus(Now, s, rep) \o EavesCopies(Now, s, call, NoSlot)
  /\ UNCHANGED <<act, fdx, cfg, cst, dying, uid, uname, everNames, queue, rules, pend, mon>>
\* a refused or failed call is not matched against the rules of third parties at all (bus_dispatch jumps past
\* bus_dispatch_matches): only monitors see it
AnswerErr(s, call, ename) ==
  /\ out' = Capture(Now, call, s, NoSlot) \o FromBus(Now, s, ErrReply(DstOf(s), call.ser, ename))
  /\ UNCHANGED <<act, fdx, cfg, cst, dying, uid, uname, everNames, queue, rules, pend, mon>>

Hello(s, ser, fl, new) ==
  LET call == DriverCall(s, ser, BUS, S_Hello, <<>>, <<>>, fl) IN
  /\ CanTalk(s)
  /\ IF ~DriverGate(s, call) THEN AnswerErr(s, call, E_AccessDenied)
     ELSE IF cst[s] = "active" THEN AnswerErr(s, call, E_Failed)
     ELSE IF NumCompleted >= cfg.maxCompleted \/ NumOfUser(uid[s]) >= cfg.maxPerUser
          THEN AnswerErr(s, call, E_LimitsExceeded)
     ELSE
        /\ new \notin everNames /\ UniqueNameValid(new)
        /\ cst' = [cst EXCEPT ![s] = "active"]
        /\ uname' = [uname EXCEPT ![s] = new]
        /\ everNames' = everNames \cup {new}
        /\ LET W == World(cst', uname', queue, rules, mon)
               call2 == [call EXCEPT !.snd = new] IN
           \* (monitors get the very message object the driver later re-stamps with the new name)
           out' = Capture(Now, call2, s, NoSlot)
                  \o FromBus(W, s, Reply(new, ser, SigS, <<AStr(new)>>, "exact"))
                  \o OwnerChange(W, new, NoSlot, s)
                  \o EavesCopies(W, s, call2, NoSlot)
        /\ UNCHANGED <<act, fdx, cfg, dying, uid, queue, rules, pend, mon>>

\* (RequestName: see the end of the module, after the routing operators it needs for held messages)

ReleaseName(s, ser, fl, n) ==
  LET call == DriverCall(s, ser, BUS, S_ReleaseName, SigS, <<AStr(n)>>, fl)
      cl == NameClass(n)
      q == QOf(queue, n) IN
  /\ CanTalk(s)
  /\ IF ~DriverGate(s, call) THEN AnswerErr(s, call, E_AccessDenied)
     ELSE IF cl # "ok" THEN AnswerErr(s, call, E_InvalidArgs)
     ELSE IF q = <<>> THEN Answer(s, call, Reply(uname[s], ser, SigU, <<AU32(2)>>, "exact"))
     ELSE IF ~InQ(q, s) THEN Answer(s, call, Reply(uname[s], ser, SigU, <<AU32(3)>>, "exact"))
     ELSE LET q2 == Without(q, s)
              qs == PutQ(queue, n, q2)
              W == World(cst, uname, qs, rules, mon)
              nw == IF q2 = <<>> THEN NoSlot ELSE q2[1].s IN
          /\ queue' = qs
          /\ out' = Capture(Now, call, s, NoSlot)
                    \* (NameLost / NameOwnerChanged / NameAcquired are staged BEFORE the owner is unlinked: rules and
                    \* filters that name a destination by a well-known name still see the old ownership)
                    \o (IF q[1].s = s THEN OwnerChange(Now, n, s, nw) ELSE <<>>)
                    \o FromBus(W, s, Reply(uname[s], ser, SigU, <<AU32(1)>>, "exact"))
                    \o EavesCopies(W, s, call, NoSlot)
          /\ UNCHANGED <<act, fdx, cfg, cst, dying, uid, uname, everNames, rules, pend, mon>>

\* ---- queries
AllNames == {BUS} \cup {uname[x] : x \in {y \in Slot : cst[y] = "active"}} \cup DOMAIN queue
QueuedNames(q) == [i \in 1..Len(q) |-> uname[q[i].s]]

Query(s, ser, fl, kind, n) ==
  LET mem == CASE kind = "owner" -> S_GetNameOwner [] kind = "has" -> S_NameHasOwner
               [] kind = "queued" -> S_ListQueuedOwners [] kind = "list" -> S_ListNames
               [] kind = "ping" -> S_Ping
               \* who is behind a name (credentials the bus took from the socket at connection time), the bus's own
               \* identity, and the names that service files provide
               [] kind = "uid" -> S_GetConnectionUnixUser [] kind = "pid" -> S_GetConnectionUnixProcessID
               [] kind = "id" -> S_GetId [] kind = "acts" -> S_ListActivatableNames
      ifc == IF kind = "ping" THEN S_org_freedesktop_DBus_Peer ELSE BUS
      call == IF kind \in {"list", "ping", "id", "acts"} THEN DriverCall(s, ser, ifc, mem, <<>>, <<>>, fl)
              ELSE DriverCall(s, ser, ifc, mem, SigS, <<AStr(n)>>, fl)
      r == Resolve(queue, n)
      me == DstOf(s) IN
  /\ CanTalk(s)
  /\ IF ~DriverGate(s, call) THEN AnswerErr(s, call, E_AccessDenied)
     ELSE CASE kind = "owner" ->
                 IF n = BUS THEN Answer(s, call, Reply(me, ser, SigS, <<AStr(BUS)>>, "exact"))
                 ELSE IF r = NoSlot THEN AnswerErr(s, call, E_NameHasNoOwner)
                 ELSE Answer(s, call, Reply(me, ser, SigS, <<AStr(uname[r])>>, "exact"))
            [] kind = "has" -> Answer(s, call, Reply(me, ser, SigB, <<ABool(n = BUS \/ r # NoSlot)>>, "exact"))
            [] kind = "queued" ->
                 IF n = BUS THEN Answer(s, call, Reply(me, ser, SigAS, <<AStrs(<<BUS>>)>>, "exact"))
                 ELSE IF r = NoSlot THEN AnswerErr(s, call, E_NameHasNoOwner)
                 ELSE Answer(s, call, Reply(me, ser, SigAS,
                                <<AStrs(IF n \in DOMAIN queue THEN QueuedNames(queue[n]) ELSE <<n>>)>>, "exact"))
            [] kind = "list" -> Answer(s, call, Reply(me, ser, SigAS, <<AStrs(SeqOfSet(AllNames))>>, "set1"))
            [] kind = "uid" ->
                 IF n = BUS THEN Answer(s, call, Reply(me, ser, SigU, <<AU32(cfg.busUid)>>, "exact"))
                 ELSE IF r = NoSlot THEN AnswerErr(s, call, E_NameHasNoOwner)
                 ELSE Answer(s, call, Reply(me, ser, SigU, <<AU32(uid[r])>>, "exact"))
            [] kind = "pid" ->
                 IF n = BUS THEN Answer(s, call, Reply(me, ser, SigU, <<AU32(cfg.busPid)>>, "exact"))
                 ELSE IF r = NoSlot THEN AnswerErr(s, call, E_NameHasNoOwner)
                 ELSE Answer(s, call, Reply(me, ser, SigU, <<AU32(cfg.clientPid)>>, "exact"))
            [] kind = "id" -> Answer(s, call, Reply(me, ser, SigS, <<AStr(cfg.guid)>>, "exact"))
            [] kind = "acts" -> Answer(s, call, Reply(me, ser, SigAS,
                                   <<AStrs(SeqOfSet({BUS} \cup {cfg.act[i].n : i \in 1..Len(cfg.act)}))>>, "set1"))
            [] kind = "ping" -> IF NoReplyFlag(call)
                                THEN /\ out' = Capture(Now, call, s, NoSlot) \o EavesCopies(Now, s, call, NoSlot)
                                     /\ UNCHANGED <<act, fdx, cfg, cst, dying, uid, uname, everNames, queue, rules, pend, mon>>
                                ELSE Answer(s, call, Reply(me, ser, <<>>, <<>>, "exact"))

\* ---- ReloadConfig (bus_context_reload_config): the configuration file is read again; limits and policy are replaced
\* at once for everybody (every completed connection gets a fresh client policy), nothing that exists is evicted.
\* The call itself was admitted under the old policy; its acknowledgement and the eavesdroppers' copies of it are
\* judged by the new one.  c: the new configuration (same shape as cfg; the epoch counter is the model's own).
ReloadConfig(s, ser, fl, c) ==
  LET call == DriverCall(s, ser, BUS, S_ReloadConfig, <<>>, <<>>, fl)
      W == [Now EXCEPT !.pol = c.policy] IN
  /\ CanTalk(s)
  /\ IF ~DriverGate(s, call) THEN AnswerErr(s, call, E_AccessDenied)
     ELSE /\ cfg' = [c EXCEPT !.epoch = cfg.epoch]
          /\ out' = Capture(Now, call, s, NoSlot)
                    \o (IF NoReplyFlag(call) THEN <<>> ELSE FromBus(W, s, Reply(DstOf(s), ser, <<>>, <<>>, "exact")))
                    \o EavesCopies(W, s, call, NoSlot)
          /\ UNCHANGED <<act, fdx, cst, dying, uid, uname, everNames, queue, rules, pend, mon>>

\* driver artefact: a client that is about to close first makes sure its earlier messages were dispatched (Ping
\* round trip) and stops reading the moment the reply arrives; the two are one step of the model
PingAndClose(s, ser) ==
  LET call == DriverCall(s, ser, S_org_freedesktop_DBus_Peer, S_Ping, <<>>, <<>>, 0) IN
  /\ CanTalk(s)
  /\ out' = Capture(Now, call, s, NoSlot)
            \o FromBus(Now, s, IF DriverGate(s, call) THEN Reply(DstOf(s), ser, <<>>, <<>>, "exact")
                                ELSE ErrReply(DstOf(s), ser, E_AccessDenied))
            \o (IF DriverGate(s, call) THEN EavesCopies(Now, s, call, NoSlot) ELSE <<>>)
  /\ dying' = [dying EXCEPT ![s] = TRUE]
  /\ UNCHANGED <<act, fdx, cfg, cst, uid, uname, everNames, queue, rules, pend, mon>>

\* ---- match rules
AddMatch(s, ser, fl, text) ==
  LET call == DriverCall(s, ser, BUS, S_AddMatch, SigS, <<AStr(text)>>, fl)
      p == ParseRule(text) IN
  /\ CanTalk(s)
  /\ IF ~DriverGate(s, call) THEN AnswerErr(s, call, E_AccessDenied)
     ELSE IF Len(rules[s]) >= cfg.maxMatch THEN AnswerErr(s, call, E_LimitsExceeded)
     ELSE IF ~p.ok THEN AnswerErr(s, call, IF p.err = "LimitsExceeded" THEN E_LimitsExceeded ELSE E_MatchRuleInvalid)
     ELSE IF p.rule.eav /\ ~Privileged(s) THEN AnswerErr(s, call, E_AccessDenied)
     ELSE /\ rules' = [rules EXCEPT ![s] = Append(@, p.rule)]
          /\ LET W == World(cst, uname, queue, rules', mon) IN
             out' = Capture(Now, call, s, NoSlot)
                    \o (IF NoReplyFlag(call) THEN <<>> ELSE FromBus(W, s, Reply(uname[s], ser, <<>>, <<>>, "exact")))
                    \o EavesCopies(W, s, call, NoSlot)
          /\ UNCHANGED <<act, fdx, cfg, cst, dying, uid, uname, everNames, queue, pend, mon>>

\* index of the most recently added rule equal to r, or 0
LastEqual(rs, r) == IF \E i \in 1..Len(rs) : RuleEqual(rs[i], r)
                    THEN CHOOSE i \in 1..Len(rs) : RuleEqual(rs[i], r) /\ \A j \in (i+1)..Len(rs) : ~RuleEqual(rs[j], r)
                    ELSE 0
RemoveAt(sq, i) == SubSeq(sq, 1, i - 1) \o SubSeq(sq, i + 1, Len(sq))

RemoveMatch(s, ser, fl, text) ==
  LET call == DriverCall(s, ser, BUS, S_RemoveMatch, SigS, <<AStr(text)>>, fl)
      p == ParseRule(text)
      i == LastEqual(rules[s], p.rule) IN
  /\ CanTalk(s)
  /\ IF ~DriverGate(s, call) THEN AnswerErr(s, call, E_AccessDenied)
     ELSE IF ~p.ok THEN AnswerErr(s, call, IF p.err = "LimitsExceeded" THEN E_LimitsExceeded ELSE E_MatchRuleInvalid)
     ELSE IF i = 0 THEN AnswerErr(s, call, E_MatchRuleNotFound)
     ELSE /\ rules' = [rules EXCEPT ![s] = RemoveAt(@, i)]
          /\ LET W == World(cst, uname, queue, rules', mon) IN
             out' = Capture(Now, call, s, NoSlot)
                    \o (IF NoReplyFlag(call) THEN <<>> ELSE FromBus(Now, s, Reply(uname[s], ser, <<>>, <<>>, "exact")))
                    \o EavesCopies(W, s, call, NoSlot)
          /\ UNCHANGED <<act, fdx, cfg, cst, dying, uid, uname, everNames, queue, pend, mon>>

\* KNOWN DEFECT (deviation, only enabled by BusTrace while listed open in known-findings.json):
\* RemoveMatch of a rule the caller does not hold stages the success reply before it looks for the rule and
\* then fails: the caller gets a method return AND the MatchRuleNotFound error.
Dev_RemoveMatchAckThenError(s, ser, fl, text) ==
  LET call == DriverCall(s, ser, BUS, S_RemoveMatch, SigS, <<AStr(text)>>, fl)
      p == ParseRule(text) IN
  /\ CanTalk(s) /\ DriverGate(s, call) /\ p.ok /\ LastEqual(rules[s], p.rule) = 0 /\ ~NoReplyFlag(call)
  /\ out' = Capture(Now, call, s, NoSlot)
            \o FromBus(Now, s, Reply(uname[s], ser, <<>>, <<>>, "exact"))
            \o FromBus(Now, s, ErrReply(uname[s], ser, E_MatchRuleNotFound))
  /\ UNCHANGED <<act, fdx, cfg, cst, dying, uid, uname, everNames, queue, rules, pend, mon>>

\* ------------------------------------------------------------------ disconnect processing
\* bus_connection_disconnected: match rules go first, then every name (each in its own transaction, unique name
\* last), pending replies.  `order` is the order in which the well-known names are given up.
RECURSIVE DropNames(_,_,_,_)
DropNames(W, s, order, i) ==
  IF i > Len(order) THEN [qs |-> W.qs, em |-> <<>>]
  ELSE LET n == order[i]
           q == W.qs[n]
           q2 == Without(q, s)
           qs2 == PutQ(W.qs, n, q2)
           W2 == [W EXCEPT !.qs = qs2]
           nw == IF q2 = <<>> THEN NoSlot ELSE q2[1].s
           em == IF q[1].s = s THEN OwnerChange(W, n, s, nw) ELSE <<>>      \* (staged before the unlink, see ReleaseName)
           rest == DropNames(W2, s, order, i + 1) IN
       [qs |-> rest.qs, em |-> em \o rest.em]

NamesOf(qs, s) == {n \in DOMAIN qs : InQ(qs[n], s)}
\* rules of other connections that name the gone unique name as sender or destination are discarded too
\* (named deviation RulesNamingGoneUniqueRemoved: invisible except through the rule count)
PruneRules(rl, s, un) ==
  [x \in Slot |-> IF x = s THEN <<>> ELSE SelectSeq(rl[x], LAMBDA r : r.snd # un /\ r.dst # un)]

Drop(s, order) ==
  /\ dying[s] /\ cst[s] # "absent"
  /\ order \in [1..Cardinality(NamesOf(queue, s)) -> NamesOf(queue, s)]
  /\ \A i, j \in DOMAIN order : i # j => order[i] # order[j]
  /\ LET wasActive == cst[s] = "active"
         \* (the scan that also discards other connections' rules naming the gone unique name only runs when the
         \* disconnecting connection held at least one rule itself)
         \* (a monitor always counts at least one rule -- its filter -- and still carries the unique name it had)
         rl2 == IF (wasActive /\ rules[s] # <<>>) \/ cst[s] = "monitor" THEN PruneRules(rules, s, uname[s]) ELSE rules
         W0 == World(cst, uname, queue, rl2, [mon EXCEPT ![s] = <<>>])
         d == DropNames(W0, s, order, 1)
         cs2 == [cst EXCEPT ![s] = "absent"]
         W1 == World(cs2, uname, d.qs, rl2, W0.mn)
         IN
     /\ rules' = rl2
     /\ queue' = d.qs
     /\ cst' = cs2
     /\ dying' = [dying EXCEPT ![s] = FALSE]
     /\ mon' = W0.mn
     \* caller gone: its slots vanish; callee gone: the slot is orphaned and expires "at once" (ExpirePending)
     /\ pend' = [i \in 1..Len(SelectSeq(pend, LAMBDA p : p.caller # s)) |->
                   LET p == SelectSeq(pend, LAMBDA x : x.caller # s)[i] IN
                   IF p.callee = s THEN [p EXCEPT !.callee = NoSlot, !.orph = cfg.epoch] ELSE p]
     /\ uname' = [uname EXCEPT ![s] = <<>>]
     /\ out' = d.em
               \o (IF wasActive THEN OwnerChange(W1, uname[s], s, NoSlot) ELSE <<>>)
     /\ fdx' = [fdx EXCEPT !.held[s] = <<>>, !.cap[s] = FALSE]      \* descriptors it had sent but not used are closed
     /\ UNCHANGED <<act, cfg, uid, everNames>>

\* a pending reply expires (reply_timeout elapsed, or the callee is gone): NoReply to the caller, exactly once
ExpirePending(i) ==
  /\ i \in 1..Len(pend)
  /\ LET p == pend[i] IN
     /\ pend' = RemoveAt(pend, i)
     /\ out' = FromBus(Now, p.caller, ErrReply(uname[p.caller], p.ser, E_NoReply))
  /\ UNCHANGED <<act, fdx, cfg, cst, dying, uid, uname, everNames, queue, rules, mon>>

KillKeep(s) == /\ dying' = [dying EXCEPT ![s] = TRUE]
               /\ UNCHANGED <<act, cfg, cst, uid, uname, everNames, queue, rules, pend, mon>>
Kill(s) == KillKeep(s) /\ UNCHANGED fdx

\* ---- monitors (org.freedesktop.DBus.Monitoring.BecomeMonitor)
RECURSIVE ParseAll(_,_)
ParseAll(texts, i) == IF i > Len(texts) THEN [ok |-> TRUE, err |-> "", rules |-> <<>>]
                      ELSE LET p == ParseRule(texts[i]) IN
                           IF ~p.ok THEN [ok |-> FALSE, err |-> p.err, rules |-> <<>>]
                           ELSE LET r == ParseAll(texts, i + 1) IN
                                IF r.ok THEN [ok |-> TRUE, err |-> "", rules |-> <<p.rule>> \o r.rules] ELSE r

\* The caller gets its reply first, then gives up every name -- the unique name first, then the others in `order` --
\* with the usual signals, loses its match rules and pending replies, and from then on only receives copies.
BecomeMonitor(s, ser, fl, texts, flags, order) ==
  LET call == Msg(1, IF cst[s] = "active" THEN uname[s] ELSE S_not_active_yet, BUS, ser, 0, P_org_freedesktop_DBus,
                  S_org_freedesktop_DBus_Monitoring, S_BecomeMonitor, <<>>, <<cA, cS, cU>>, <<AStrs(texts), AU32(flags)>>, fl, s, "exact")
      pr == ParseAll(texts, 1) IN
  /\ CanTalk(s)
  /\ order \in [1..Cardinality(NamesOf(queue, s)) -> NamesOf(queue, s)]
  /\ \A i, j \in DOMAIN order : i # j => order[i] # order[j]
  /\ IF ~DriverGate(s, call) THEN AnswerErr(s, call, E_AccessDenied)
     ELSE IF ~Privileged(s) THEN AnswerErr(s, call, E_AccessDenied)
     ELSE IF flags # 0 THEN AnswerErr(s, call, E_InvalidArgs)
     ELSE IF ~pr.ok THEN AnswerErr(s, call, IF pr.err = "LimitsExceeded" THEN E_LimitsExceeded ELSE E_MatchRuleInvalid)
     ELSE LET filt == IF pr.rules = <<>> THEN <<EmptyRule>> ELSE pr.rules
              W0 == [Now EXCEPT !.mn = [mon EXCEPT ![s] = filt]]
              d == DropNames(W0, s, order, 1)
              W1 == [W0 EXCEPT !.qs = d.qs]
              \* (the new monitor's filters have been counted as rules by then, so the scan always runs)
              rl2 == PruneRules(rules, s, uname[s])
              kept == SelectSeq(pend, LAMBDA p : p.caller # s) IN
          /\ queue' = d.qs
          /\ rules' = rl2
          /\ mon' = [mon EXCEPT ![s] = filt]
          /\ cst' = [cst EXCEPT ![s] = "monitor"]
          /\ pend' = [i \in 1..Len(kept) |-> IF kept[i].callee = s THEN [kept[i] EXCEPT !.callee = NoSlot, !.orph = cfg.epoch] ELSE kept[i]]
          /\ out' = Capture(Now, call, s, NoSlot)
                    \o (IF NoReplyFlag(call) THEN <<>> ELSE FromBus(Now, s, Reply(uname[s], ser, <<>>, <<>>, "exact")))
                    \o OwnerChange(W0, uname[s], s, NoSlot)
                    \o d.em
                    \o EavesCopies(World(cst', uname, d.qs, rl2, mon'), s, call, NoSlot)
          /\ UNCHANGED <<act, fdx, cfg, dying, uid, uname, everNames>>

\* a monitor that sends anything at all is disconnected
MonitorSpeaks(s) == cst[s] = "monitor" /\ Kill(s) /\ out' = <<>>

\* ------------------------------------------------------------------ routed messages (bus/dispatch.c)

\* ---- out of memory while the bus handles a request (C14): the transaction is cancelled, nothing of the request
\* takes effect, nobody but the caller hears of it, and the caller gets the (preallocated) NoMemory error
OomAbort(s, ser) ==
  /\ CanTalk(s)
  /\ out' = <<To(s, Msg(3, BUS, <<>>, 0, ser, <<>>, <<>>, <<>>, E_NoMemory, <<>>, <<>>, 1, 0, "errtext"))>>
  /\ UNCHANGED <<act, fdx, cfg, cst, dying, uid, uname, everNames, queue, rules, pend, mon>>

\* KNOWN DEFECT (deviation OomKeepsQueueChange): changes to the waiting queue that do not change the primary owner
\* are made outside the transaction -- a queued owner leaving (ReleaseName), the requester's stale entry dropped on
\* the EXISTS path, flags refreshed / entry repositioned on the IN_QUEUE and ALREADY_OWNER paths -- so an
\* allocation failure later in the same request reports NoMemory although the queue has changed.
Dev_OomKeepsQueueChange(s, ser, kind, n, f) ==
  LET q == QOf(queue, n)
      F == Flags(f)
      \* (a queued requester that would take the name over: its entry is refreshed and moved right behind the primary
      \* owner outside the transaction; only the exchange of the two is rolled back)
      q2 == IF kind = "req" THEN (IF Acquire(q, s, F).w = NoSlot THEN Acquire(q, s, F).q
                                  ELSE After1(Without(q, s), [s |-> s, ar |-> F.ar, dnq |-> F.dnq]))
            ELSE Without(q, s) IN
  /\ CanTalk(s) /\ cst[s] = "active" /\ NameClass(n) = "ok"
  /\ IF kind = "req" THEN q # <<>> /\ (Acquire(q, s, F).w = NoSlot \/ InQ(q, s)) /\ HeldCount(queue, s) < cfg.maxNames
     ELSE q # <<>> /\ InQ(q, s) /\ q[1].s # s
  /\ queue' = PutQ(queue, n, q2)
  /\ out' = <<To(s, Msg(3, BUS, <<>>, 0, ser, <<>>, <<>>, <<>>, E_NoMemory, <<>>, <<>>, 1, 0, "errtext"))>>
  /\ UNCHANGED <<act, fdx, cfg, cst, dying, uid, uname, everNames, rules, pend, mon>>

\* KNOWN DEFECT (deviation OomHelloHalfDone): bus_driver_handle_hello completes the connection (unique name, policy,
\* counters) before the steps that can still fail; when one of them runs out of memory the caller gets NoMemory but
\* the connection stays registered under its new name -- without the name being announced, owned or told to it.
Dev_OomHelloHalfDone(s, ser, name) ==
  /\ cst[s] = "incomplete" /\ name \notin everNames
  /\ cst' = [cst EXCEPT ![s] = "active"] /\ uname' = [uname EXCEPT ![s] = name] /\ everNames' = everNames \cup {name}
  /\ out' = <<To(s, Msg(3, BUS, <<>>, 0, ser, <<>>, <<>>, <<>>, E_NoMemory, <<>>, <<>>, 1, 0, "errtext"))>>
  /\ UNCHANGED <<act, fdx, cfg, dying, uid, queue, rules, pend, mon>>

\* bytes that are not a valid message, or a message over max_message_size: the sender is disconnected, nothing else
Corrupt(s) == /\ cst[s] # "absent" /\ Kill(s) /\ out' = <<>>

\* ------------------------------------------------------------------ activation (bus/activation.c)
\* cfg.act: Seq of [n, kind] -- the names service files provide: kind "ok" (Exec runs), "noexec" (the program does not
\* exist: the start fails a moment after it began), "badquote" (the Exec line cannot be split into arguments)
ActIdx(n) == IF \E i \in 1..Len(cfg.act) : cfg.act[i].n = n THEN CHOOSE i \in 1..Len(cfg.act) : cfg.act[i].n = n ELSE 0
ActKind(n) == IF ActIdx(n) = 0 THEN "none" ELSE cfg.act[ActIdx(n)].kind
PIdx(ap, n) == IF \E i \in 1..Len(ap) : ap[i].n = n THEN CHOOSE i \in 1..Len(ap) : ap[i].n = n ELSE 0
RECURSIVE SumEntries(_, _)
SumEntries(ap, i) == IF i > Len(ap) THEN 0 ELSE Len(ap[i].entries) + SumEntries(ap, i + 1)
SpawnCount(n) == IF n \in DOMAIN act.spawned THEN act.spawned[n] ELSE 0
Bump(sp, n) == [x \in (DOMAIN sp) \cup {n} |-> IF x = n THEN (IF n \in DOMAIN sp THEN sp[n] ELSE 0) + 1 ELSE sp[x]]
\* bus_activation_activate_service for connection s and message m (auto: held message; otherwise StartServiceByName):
\* [err, act, running].  The checks come in this order; a start that is already under way is joined before the Exec
\* line is even looked at; a new start creates the pending activation and spawns exactly one process.
Activate(s, m, auto, n) ==
  LET i == PIdx(act.pend, n)
      e == [auto |-> auto, s |-> s, un |-> uname[s], m |-> m]
      res(err, a, run) == [err |-> err, act |-> a, running |-> run] IN
  IF SumEntries(act.pend, 1) >= cfg.maxPendingAct THEN res(E_LimitsExceeded, act, FALSE)
  ELSE IF ActKind(n) = "none" THEN res(E_ServiceUnknown, act, FALSE)
  ELSE IF auto /\ ~CanSend(cfg.policy, Cred(s), m, FALSE, FALSE, {n}) THEN res(E_AccessDenied, act, FALSE)
  ELSE IF ~auto /\ n \in DOMAIN queue THEN res(<<>>, act, TRUE)
  ELSE IF i # 0 THEN res(<<>>, [act EXCEPT !.pend[i].entries = Append(@, e)], FALSE)
  ELSE IF ActKind(n) = "badquote" THEN res(E_InvalidArgs, act, FALSE)
  ELSE res(<<>>, [pend |-> Append(act.pend, [n |-> n, entries |-> <<e>>, born |-> cfg.epoch]),
                  spawned |-> Bump(act.spawned, n)], FALSE)

\* the security gate for the addressed recipient (bus_context_check_security_policy with proposed = addressed):
\* result [ok, err, pd] where pd is the pending-reply table afterwards (changes stay even when a later check
\* refuses the message, because the transaction carrying the error reply is executed, not cancelled)
FindPend(pd, caller, callee, ser) ==
  IF \E i \in 1..Len(pd) : pd[i].caller = caller /\ pd[i].callee = callee /\ pd[i].ser = ser
  THEN CHOOSE i \in 1..Len(pd) : /\ pd[i].caller = caller /\ pd[i].callee = callee /\ pd[i].ser = ser
                                  /\ \A j \in 1..(i-1) : ~(pd[j].caller = caller /\ pd[j].callee = callee /\ pd[j].ser = ser)
  ELSE 0
CountPend(pd, caller) == Cardinality({i \in 1..Len(pd) : pd[i].caller = caller})

\* full: the recipient's outgoing queue holds more than max_outgoing_bytes (it is not reading)
GateF(pd, qs, s, adr, m, full) ==
  LET k == IF m.rs # 0 THEN FindPend(pd, adr, s, m.rs) ELSE 0
      requested == k # 0
      pd1 == IF k # 0 THEN RemoveAt(pd, k) ELSE pd
      wantsReply == m.ty = 1 /\ (m.fl % 2) = 0 IN
  IF m.ty \notin 1..4 THEN [ok |-> FALSE, err |-> E_AccessDenied, pd |-> pd]
  ELSE IF ~CanSend(cfg.policy, Cred(s), m, requested, TRUE, HeldNames(qs, uname, adr))
       THEN [ok |-> FALSE, err |-> E_AccessDenied, pd |-> pd1]
  ELSE IF ~CanReceive(cfg.policy, Cred(adr), m, requested, HeldNames(qs, uname, s), FALSE)
       THEN [ok |-> FALSE, err |-> E_AccessDenied, pd |-> pd1]
  \* (checked after both policies and before the reply expectation is recorded)
  ELSE IF full THEN [ok |-> FALSE, err |-> E_LimitsExceeded, pd |-> pd1]
  ELSE IF ~wantsReply THEN [ok |-> TRUE, err |-> <<>>, pd |-> pd1]
  ELSE IF FindPend(pd1, s, adr, m.ser) # 0 THEN [ok |-> FALSE, err |-> E_AccessDenied, pd |-> pd1]
  ELSE IF CountPend(pd1, s) >= cfg.maxReplies THEN [ok |-> FALSE, err |-> E_LimitsExceeded, pd |-> pd1]
  ELSE [ok |-> TRUE, err |-> <<>>, pd |-> Append(pd1, [caller |-> s, callee |-> adr, ser |-> m.ser, born |-> cfg.epoch, orph |-> 0])]

GateW(pd, qs, s, adr, m) == GateF(pd, qs, s, adr, m, FALSE)
Gate(s, adr, m) == GateW(pend, queue, s, adr, m)

\* rule-matched recipients of a client's message: each passes its own gate, refusals are silent
\* D: recipients whose outgoing queue is full (they are not reading): their copy is dropped without a word
RuleCopiesD(W, s, m, adr, D) ==
  LET R == RuleRecipients(W, m, s, adr) \ D
      sq == SeqOfSet(R)
      ok(r) == /\ m.ty \in 1..4
               /\ (m.nfd = 0 \/ fdx.cap[r])
               /\ CanSend(W.pol, Cred(s), m, FALSE, TRUE, HeldNames(W.qs, W.un, r))
               /\ CanReceive(W.pol, Cred(r), m, FALSE, HeldNames(W.qs, W.un, s), m.dst # <<>>)
      one(r) == IF ok(r) THEN <<To(r, m)>> ELSE Capture(W, ErrReply(UNm(W, s), m.ser, E_AccessDenied), NoSlot, s)
      RECURSIVE go(_)
      go(i) == IF i > Len(sq) THEN <<>> ELSE one(sq[i]) \o go(i + 1) IN
  go(1)
RuleCopies(W, s, m, adr) == RuleCopiesD(W, s, m, adr, {})

AutoStart(m) == ((m.fl \div 2) % 2) = 0

\* m0: the message as the client wrote it (legitimate fields only; forged SENDER, unknown fields and
\* CONTAINER_INSTANCE never survive and are therefore not part of the abstract message)
SendX(s, m0, rest, full, D) ==
  LET m == [m0 EXCEPT !.snd = IF cst[s] = "active" THEN uname[s] ELSE S_not_active_yet, !.org = s]
      adr == IF m.dst = <<>> THEN NoSlot ELSE Resolve(queue, m.dst) IN
  /\ cst[s] # "absent"
  /\ m.dst # BUS
  /\ fdx' = [fdx EXCEPT !.held[s] = rest]      \* descriptors that came with it and that it did not claim stay held
  /\ IF cst[s] = "monitor" THEN KillKeep(s) /\ out' = <<>>                       \* MonitorSpeaks
     ELSE IF m.dst = <<>> /\ m.ty # 4 THEN
          \* a non-signal without destination is for the bus itself as a peer: Peer.Ping is answered, any other
          \* call gets UnknownMethod, replies are dropped.  (What the code really does: Dev_LocalReplyUnstamped.)
          /\ out' = IF m.ty # 1 \/ (m.fl % 2) = 1 THEN <<>>
                    ELSE IF m.ifc = S_org_freedesktop_DBus_Peer /\ m.mem = S_Ping /\ m.sig = <<>>
                         THEN <<To(s, Reply(DstOf(s), m.ser, <<>>, <<>>, "exact"))>>
                    ELSE <<To(s, ErrReply(DstOf(s), m.ser, E_UnknownMethod))>>
          /\ UNCHANGED <<act, cfg, cst, dying, uid, uname, everNames, queue, rules, pend, mon>>
     ELSE IF cst[s] = "incomplete" THEN KillKeep(s) /\ out' = Capture(Now, m, s, NoSlot)  \* not registered yet
     ELSE IF m.dst # <<>> /\ adr = NoSlot /\ AutoStart(m) THEN
          \* nobody owns the name: start the service that provides it, or join the start already under way; the
          \* message is held (no answer now) unless the start is refused
          LET a == Activate(s, m, TRUE, m.dst) IN
          /\ act' = a.act
          /\ out' = Capture(Now, m, s, NoSlot)
                    \o (IF a.err # <<>> THEN FromBus(Now, s, ErrReply(uname[s], m.ser, a.err)) ELSE <<>>)
          /\ UNCHANGED <<cfg, cst, dying, uid, uname, everNames, queue, rules, pend, mon>>
     ELSE IF m.dst # <<>> /\ adr = NoSlot THEN
          /\ out' = Capture(Now, m, s, NoSlot) \o FromBus(Now, s, ErrReply(uname[s], m.ser, E_NameHasNoOwner))
          /\ UNCHANGED <<act, cfg, cst, dying, uid, uname, everNames, queue, rules, pend, mon>>
     ELSE IF adr = NoSlot THEN          \* broadcast signal
          /\ out' = Capture(Now, m, s, NoSlot) \o RuleCopiesD(Now, s, m, NoSlot, D)
          /\ UNCHANGED <<act, cfg, cst, dying, uid, uname, everNames, queue, rules, pend, mon>>
     ELSE LET g == GateF(pend, queue, s, adr, m, full)
              \* a message with descriptors only goes to connections that negotiated descriptor passing; the check
              \* comes after the gate (so the gate's bookkeeping stays even when this check refuses the message)
              fdok == m.nfd = 0 \/ fdx.cap[adr] IN
          /\ pend' = g.pd
          /\ out' = Capture(Now, m, s, adr)
                    \o (IF g.ok /\ fdok THEN <<To(adr, m)>> \o RuleCopiesD(Now, s, m, adr, D)
                        ELSE FromBus(Now, s, ErrReply(uname[s], m.ser, IF g.ok THEN E_NotSupported ELSE g.err)))
          /\ UNCHANGED <<act, cfg, cst, dying, uid, uname, everNames, queue, rules, mon>>

Send(s, m0, rest) == SendX(s, m0, rest, FALSE, {})
\* ... when some rule-matched recipients (D, non-empty) have full queues
SendDropping(s, m0, rest, D) == D # {} /\ SendX(s, m0, rest, FALSE, D)
\* the same when the addressed recipient's queue is full (only a recipient that has stopped reading gets there)
SendFull(s, m0, rest) ==
  /\ m0.dst # <<>> /\ Resolve(queue, m0.dst) # NoSlot /\ cst[s] = "active"
  /\ SendX(s, m0, rest, TRUE, {})

\* KNOWN DEFECT (deviation): a non-signal without destination is handed back to libdbus inside the daemon, which
\* answers it without any transaction: the reply carries no SENDER at all, its DESTINATION is whatever SENDER
\* value the client itself put in the header (none if it put none), and monitors never see call or reply.
Dev_LocalReplyUnstamped(s, m0, fsnd) ==
  /\ cst[s] \in {"incomplete", "active"}
  /\ m0.dst = <<>> /\ m0.ty = 1 /\ (m0.fl % 2) = 0
  /\ out' = IF m0.ifc = S_org_freedesktop_DBus_Peer /\ m0.mem = S_Ping /\ m0.sig = <<>>
            THEN <<To(s, Msg(2, <<>>, fsnd, 0, m0.ser, <<>>, <<>>, <<>>, <<>>, <<>>, <<>>, 1, 0, "exact"))>>
            ELSE <<To(s, Msg(3, <<>>, fsnd, 0, m0.ser, <<>>, <<>>, <<>>, E_UnknownMethod, SigS, <<>>, 1, 0, "errtext"))>>
  /\ UNCHANGED <<act, fdx, cfg, cst, dying, uid, uname, everNames, queue, rules, pend, mon>>

\* KNOWN DEFECT (deviation MonitorPeerAnsweredLocally): the library's built-in handler for org.freedesktop.DBus.Peer runs
\* before the bus sees a message; a method call on that interface WITHOUT a destination is answered by it even when
\* the caller is a monitor -- which therefore is the addressee of a delivery and is not disconnected for speaking.
Dev_MonitorPeerAnsweredLocally(s, m0, fsnd) ==
  /\ cst[s] = "monitor" /\ ~dying[s]
  /\ m0.dst = <<>> /\ m0.ty = 1 /\ m0.ifc = S_org_freedesktop_DBus_Peer
  /\ out' = IF (m0.fl % 2) = 1 THEN <<>>
            ELSE IF m0.mem = S_Ping /\ m0.sig = <<>>
            THEN <<To(s, Msg(2, <<>>, fsnd, 0, m0.ser, <<>>, <<>>, <<>>, <<>>, <<>>, <<>>, 1, 0, "exact"))>>
            ELSE <<To(s, Msg(3, <<>>, fsnd, 0, m0.ser, <<>>, <<>>, <<>>, E_UnknownMethod, SigS, <<>>, 1, 0, "errtext"))>>
  /\ UNCHANGED <<act, fdx, cfg, cst, dying, uid, uname, everNames, queue, rules, pend, mon>>

\* anything else addressed to the driver: replies and signals are ignored, unknown methods refused
DriverOther(s, m0) ==
  LET m == [m0 EXCEPT !.snd = IF cst[s] = "active" THEN uname[s] ELSE S_not_active_yet, !.org = s]
      knownIfc == m.ifc \in {<<>>, BUS, S_org_freedesktop_DBus_Peer, S_org_freedesktop_DBus_Properties,
                             S_org_freedesktop_DBus_Introspectable, S_org_freedesktop_DBus_Monitoring,
                             S_org_freedesktop_DBus_Debug_Stats} IN
  /\ CanTalk(s) /\ m.dst = BUS
  \* (the security check refuses message types it does not know, whoever they are for)
  /\ IF ~DriverGate(s, m) \/ m.ty \notin 1..4 THEN AnswerErr(s, m, E_AccessDenied)
     ELSE IF m.ty # 1 THEN
          /\ out' = Capture(Now, m, s, NoSlot) \o EavesCopies(Now, s, m, NoSlot)
          /\ UNCHANGED <<act, fdx, cfg, cst, dying, uid, uname, everNames, queue, rules, pend, mon>>
     ELSE AnswerErr(s, m, IF knownIfc THEN E_UnknownMethod ELSE E_UnknownInterface)

\* ------------------------------------------------------------------ activation, continued
\* is the connection that left this entry still there, as far as the daemon knows?  (`maybe`: connections whose
\* socket the client has closed while the daemon has not noticed yet)
EntryLive(e, maybe) == cst[e.s] = "active" /\ uname[e.s] = e.un /\ (~dying[e.s] \/ e.s \in maybe)
\* the service has taken its name (slot w): StartServiceByName callers are told "started" (1), then the held messages
\* are dispatched in the order they arrived, each through the ordinary gate (a refusal goes to its sender only)
RECURSIVE HeldOut(_,_,_,_,_,_)
HeldOut(W, pd, es, i, w, maybe) ==
  IF i > Len(es) THEN [pd |-> pd, out |-> <<>>]
  ELSE LET e == es[i] IN
       IF ~e.auto \/ ~EntryLive(e, maybe) THEN HeldOut(W, pd, es, i + 1, w, maybe)
       ELSE LET g == GateW(pd, W.qs, e.s, w, e.m)
                fdok == e.m.nfd = 0 \/ fdx.cap[w]
                now == IF g.ok /\ fdok THEN <<To(w, e.m)>> \o RuleCopies(W, e.s, e.m, w)
                       ELSE FromBus(W, e.s, ErrReply(e.un, e.m.ser, IF g.ok THEN E_NotSupported ELSE g.err))
                rest == HeldOut(W, g.pd, es, i + 1, w, maybe) IN
            [pd |-> rest.pd, out |-> now \o rest.out]
RECURSIVE StartedOut(_,_,_,_)
StartedOut(W, es, i, maybe) ==
  IF i > Len(es) THEN <<>>
  ELSE (IF ~es[i].auto /\ EntryLive(es[i], maybe)
        THEN FromBus(W, es[i].s, Reply(es[i].un, es[i].m.ser, SigU, <<AU32(1)>>, "exact")) ELSE <<>>)
       \o StartedOut(W, es, i + 1, maybe)
DyingWaiters(n) == LET i == PIdx(act.pend, n) IN
  IF i = 0 THEN {} ELSE {act.pend[i].entries[k].s : k \in {j \in 1..Len(act.pend[i].entries) : dying[act.pend[i].entries[j].s]}}

RequestName(s, ser, fl, n, f) ==
  LET call == DriverCall(s, ser, BUS, S_RequestName, <<cS, cU>>, <<AStr(n), AU32(f)>>, fl)
      cl == NameClass(n) IN
  /\ CanTalk(s)
  /\ IF ~DriverGate(s, call) THEN AnswerErr(s, call, E_AccessDenied)
     ELSE IF cl # "ok" THEN AnswerErr(s, call, E_InvalidArgs)
     ELSE IF ~CanOwn(cfg.policy, Cred(s), n) THEN AnswerErr(s, call, E_AccessDenied)
     ELSE IF HeldCount(queue, s) >= cfg.maxNames THEN AnswerErr(s, call, E_LimitsExceeded)
     ELSE LET r == Acquire(QOf(queue, n), s, Flags(f))
              qs == PutQ(queue, n, r.q)
              W == World(cst, uname, qs, rules, mon)
              pi == IF QOf(queue, n) = <<>> THEN PIdx(act.pend, n) ELSE 0 IN
          /\ queue' = qs
          /\ \E maybe \in SUBSET DyingWaiters(n) :
               LET es == IF pi = 0 THEN <<>> ELSE act.pend[pi].entries
                   h == HeldOut(W, pend, es, 1, s, maybe) IN
               /\ pend' = h.pd
               /\ out' = Capture(Now, call, s, NoSlot)
                         \* (staged before the queue changes, see ReleaseName)
                         \o (IF r.w # NoSlot THEN OwnerChange(Now, n, r.o, r.w) ELSE <<>>)
                         \o StartedOut(W, es, 1, maybe)
                         \o h.out
                         \o FromBus(W, s, Reply(uname[s], ser, SigU, <<AU32(r.code)>>, "exact"))
                         \o EavesCopies(W, s, call, NoSlot)
          /\ act' = IF pi = 0 THEN act ELSE [act EXCEPT !.pend = RemoveAt(@, pi)]
          /\ UNCHANGED <<fdx, cfg, cst, dying, uid, uname, everNames, rules, mon>>

\* org.freedesktop.DBus.StartServiceByName(name, flags): answered at once only if the name is already owned (2) or
\* the start is refused; otherwise the caller waits for the outcome of the start like the held messages do
StartService(s, ser, fl, n, flags) ==
  LET call == DriverCall(s, ser, BUS, S_StartServiceByName, <<cS, cU>>, <<AStr(n), AU32(flags)>>, fl) IN
  /\ CanTalk(s)
  /\ IF ~DriverGate(s, call) THEN AnswerErr(s, call, E_AccessDenied)
     ELSE LET a == Activate(s, call, FALSE, n) IN
          IF a.err # <<>> THEN AnswerErr(s, call, a.err)
          ELSE IF a.running THEN Answer(s, call, Reply(uname[s], ser, SigU, <<AU32(2)>>, "exact"))
          ELSE /\ act' = a.act
               /\ out' = Capture(Now, call, s, NoSlot) \o EavesCopies(Now, s, call, NoSlot)
               /\ UNCHANGED <<fdx, cfg, cst, dying, uid, uname, everNames, queue, rules, pend, mon>>

\* the start of n has failed (the process exited with a non-zero status or was killed, could not be executed, or
\* the start timeout passed): every waiter that is still there gets this one error, and the activation is over
RECURSIVE FailedOut(_,_,_,_)
FailedOut(es, i, ename, maybe) ==
  IF i > Len(es) THEN <<>>
  ELSE (IF EntryLive(es[i], maybe)
        THEN FromBus(Now, es[i].s, ErrReply(es[i].un, es[i].m.ser, ename)) ELSE <<>>)
       \o FailedOut(es, i + 1, ename, maybe)
ActivationFails(n, ename) ==
  LET pi == PIdx(act.pend, n) IN
  /\ pi # 0
  /\ \E maybe \in SUBSET DyingWaiters(n) : out' = FailedOut(act.pend[pi].entries, 1, ename, maybe)
  /\ act' = [act EXCEPT !.pend = RemoveAt(@, pi)]
  /\ UNCHANGED <<fdx, cfg, cst, dying, uid, uname, everNames, queue, rules, pend, mon>>
\* the started process ended: status 0 is ignored (the program may have put itself in the background), anything
\* else fails the activation
ChildExit(n, status, signaled) ==
  IF PIdx(act.pend, n) = 0 \/ (status = 0 /\ ~signaled)
  THEN out' = <<>> /\ UNCHANGED <<act, fdx, cfg, cst, dying, uid, uname, everNames, queue, rules, pend, mon>>
  ELSE ActivationFails(n, IF signaled THEN S_org_freedesktop_DBus_Error_Spawn_ChildSignaled
                          ELSE S_org_freedesktop_DBus_Error_Spawn_ChildExited)
ExecFails(n) == ActKind(n) = "noexec" /\ ActivationFails(n, S_org_freedesktop_DBus_Error_Spawn_ExecFailed)
ActTimeout(n) == ActivationFails(n, S_org_freedesktop_DBus_Error_TimedOut)

=============================================================================

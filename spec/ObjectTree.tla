----------------------------- MODULE ObjectTree -----------------------------
(* Closed model of the object-path tree for TLC (operators in lib/ObjectTreeOps.tla). *)
EXTENDS ObjectTreeOps
\* ------------------------------------------------------------------ closed model for TLC
CONSTANTS Paths, Ids
VARIABLES reg
vars == <<reg>>
Init == reg = <<>>
Next == \/ \E p \in Paths, id \in Ids, fb \in BOOLEAN : reg' = Register(reg, p, id, fb).reg
        \/ \E p \in DOMAIN reg : reg' = Unregister(reg, p)
Spec == Init /\ [][Next]_vars

\* for every call that could arrive now: exact handler first, then nearer fallbacks before farther ones, stop at
\* the first taker, nobody else is asked
ExactFirstThenNearestFallback ==
  \A p \in Paths, H \in SUBSET Ids :
    LET r == Call(reg, p, H)  inv == r.invoked IN
    /\ \A i \in 1..Len(inv) : \E q \in DOMAIN reg : reg[q].id = inv[i] /\ (q = p \/ (IsAncestor(q, p) /\ reg[q].fb))
    /\ (r.by # 0 => inv[Len(inv)] = r.by /\ \A i \in 1..(Len(inv) - 1) : inv[i] \notin H)
    /\ (r.by = 0 => \A i \in 1..Len(inv) : inv[i] \notin H)
    /\ (Occupied(reg, p) /\ Len(inv) > 0 => inv[1] = reg[p].id)
    /\ \A i, j \in 1..Len(inv) : i < j /\ (i > 1 \/ ~Occupied(reg, p)) =>
          \E a, b \in DOMAIN reg : reg[a].id = inv[i] /\ reg[b].id = inv[j] /\ Len(a) >= Len(b)
RegisterOccupiedIsNoop == \A p \in DOMAIN reg, id \in Ids, fb \in BOOLEAN : Register(reg, p, id, fb).reg = reg /\ ~Register(reg, p, id, fb).ok
ChildrenReflectTree == \A p \in Paths : \A c \in Children(reg, p) : \E q \in DOMAIN reg : IsAncestor(p, q) /\ Below(p, q) = c
MCPaths == {<<47>>, <<47,97>>, <<47,97,47,98>>, <<47,97,47,98,47,99>>, <<47,97,47,98,98>>, <<47,97,98>>}
=============================================================================

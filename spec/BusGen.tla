-------------------------------- MODULE BusGen --------------------------------
(* Behaviour generator: the closed bus model with a history variable.  TLC in simulation mode walks random       *)
(* behaviours of the specification; each time a behaviour has performed GenLen client operations its history is  *)
(* printed as JSON.  tools/genreplay.py turns every history into a script for the in-process bus (busoom.c, no    *)
(* fault injection) with an internal-state dump after every operation, and the recorded run is validated against *)
(* Bus.tla again -- specification behaviours stepped through the real code, abstract state compared after each    *)
(* step (queues in order, the primary owner's allow_replacement, rule counts), outputs compared message by message. *)
EXTENDS BusMC, Json

CONSTANT GenLen
VARIABLE hist

NameIdx(n) == CHOOSE i \in NameIds : NameOf(i) = n
RuleIdx(t) == IF t = R_noc THEN 1 ELSE IF t = R_all THEN 2 ELSE 3
Rec(k, s, a, b) == hist' = Append(hist, [k |-> k, s |-> s, a |-> a, b |-> b])

GenInit == MCInit /\ hist = <<>>
GenNext ==
  /\ Len(hist) < GenLen
  /\ \E s \in Slot :
       \* (the harness's clients are connected and authenticated from the start; Connect is silent)
       \/ cst[s] = "absent" /\ Connect(s, 0, FALSE) /\ UNCHANGED hist
       \/ cst[s] = "incomplete" /\ Cardinality(everNames) < MaxUnique /\ Hello(s, 1, 0, NextUnique) /\ Rec("hello", s, 0, 0)
       \/ cst[s] = "active" /\ \E n \in Names, f \in FlagSet : RequestName(s, 1, 0, n, f) /\ Rec("req", s, NameIdx(n), f)
       \/ cst[s] = "active" /\ \E n \in Names : ReleaseName(s, 1, 0, n) /\ Rec("rel", s, NameIdx(n), 0)
       \/ cst[s] = "active" /\ \E n \in Names : Query(s, 1, 0, "queued", n) /\ Rec("list", s, NameIdx(n), 0)
       \/ cst[s] = "active" /\ \E t \in RuleTexts : AddMatch(s, 1, 0, t) /\ Rec("addmatch", s, RuleIdx(t), 0)
       \/ cst[s] = "active" /\ \E t \in RuleTexts : RemoveMatch(s, 1, 0, t) /\ Rec("rmmatch", s, RuleIdx(t), 0)
       \/ cst[s] = "active" /\ \E d \in Names : Send(s, TestMsg(1, d, 1, 0, 0), <<>>) /\ Rec("call", s, NameIdx(d), 0)
       \/ cst[s] = "active" /\ Send(s, TestMsg(4, <<>>, 1, 0, 0), <<>>) /\ Rec("sig", s, 0, 0)
GenSpec == GenInit /\ [][GenNext]_<<vars, hist>>
\* printed once per behaviour, when the history is complete
GenEmit == Len(hist) < GenLen \/ PrintT(<<"GEN", ToJson(hist)>>)
=============================================================================

"""C15 passed file descriptors arrive intact and are never leaked."""
import busprop
import gen_bus

RULE = ('python-random histories with SCM_RIGHTS: messages (broadcast, unicast signals, calls) carrying 0-3 or 17 fresh temp files, header '
        'count equal / smaller (surplus stays held) / larger (invalid) than what is attached, two messages and their descriptors in one '
        'sendmsg, recipients with and without negotiated descriptor passing, missing names, sender or recipient disconnecting mid-way; every '
        'received descriptor is identified by (st_dev, st_ino) and must be the announced files in order; every sixth scenario sends descriptors with 120-450 kB headers (several writes per message), every sixth has subscribers of mixed capability in every subscription order; after each scenario all clients close '
        'and the /proc/<pid>/fd count of the daemon must return to its baseline; distinct = distinct scenario texts')
W = {'req': 1.5, 'rel': 0.5, 'query': 0.2, 'addmatch': 1.2, 'rmmatch': 0.2, 'signal': 1, 'call': 1, 'reply': 1,
     'usignal': 0.5, 'close': 0.6, 'driver_other': 0.1, 'nodest': 0.1, 'fdsend': 7}


def big_header(rng):
    """descriptors attached to messages whose header is far larger than one write to the recipient takes (300 kB object
    path): the descriptors must still arrive once, with the first byte only"""
    rounds = []
    for s in (1, 2, 3):
        rounds.append({'ops': {str(s): [{'k': 'connect', 'uid': 0, 'fdcap': True}, {'k': 'hello'}] +
                               ([{'k': 'req', 'n': 'com.example.A', 'f': 0}] if s == 2 else [])}})
    ser = 5000
    for _ in range(rng.choice([2, 3, 4])):
        a = rng.choice([1, 3])
        ops = []
        for _j in range(rng.choice([1, 2])):
            ser += 1
            n = rng.choice([1, 2, 3])
            ops.append({'k': 'send', 'ty': rng.choice([1, 4]), 'dst': rng.choice(['com.example.A', {'slot': 2}, {'slot': 4 - a}]),
                        'path': '/' + 'p' * rng.choice([120000, 300000, 450000]), 'ifc': 'com.example.I', 'mem': 'Ma', 'sig': 'u',
                        'body': [ser], 'ser': ser, 'fl': 1, 'fds': n})
        rounds.append({'ops': {str(a): ops}})
    rounds.append({'ops': {'2': [{'k': 'query', 'q': 'list'}]}})
    return {'cfg': {}, 'rounds': rounds}


def mixed_subscribers(rng):
    """a broadcast that carries descriptors, subscribers of which some negotiated descriptor passing and some did not, in
    every subscription order: each capable one gets its own copy with the descriptors, the others get nothing of it,
    and an eavesdropped unicast behaves the same way"""
    caps = [rng.random() < 0.5 for _ in range(3)]
    if all(caps) or not any(caps):
        caps[rng.randrange(3)] = not caps[0]
    rounds = [{'ops': {'4': [{'k': 'connect', 'uid': 0, 'fdcap': True}, {'k': 'hello'}]}}]
    order = [1, 2, 3]
    rng.shuffle(order)
    for s in order:
        rule = rng.choice(["type='signal',interface='com.example.I'", "type='signal'", "interface='com.example.I',member='Ma'"])
        rounds.append({'ops': {str(s): [{'k': 'connect', 'uid': 0, 'fdcap': caps[s - 1]}, {'k': 'hello'}, {'k': 'addmatch', 'rule': rule}]}})
    ser = 7000
    for _ in range(rng.choice([2, 3])):
        ser += 1
        rounds.append({'ops': {'4': [{'k': 'send', 'ty': 4, 'path': '/a', 'ifc': 'com.example.I', 'mem': 'Ma', 'sig': 'u', 'body': [ser],
                                      'ser': ser, 'fds': rng.choice([1, 2])},
                                     {'k': 'send', 'ty': 4, 'path': '/a', 'ifc': 'com.example.I', 'mem': 'Ma', 'sig': 'u', 'body': [ser + 100]}]}})
    rounds.append({'ops': {'4': [{'k': 'query', 'q': 'list'}]}})
    return {'cfg': {}, 'rounds': rounds}


def gen(rng, i):
    if i % 6 == 4:
        return big_header(rng)
    if i % 6 == 1:
        return mixed_subscribers(rng)
    g = gen_bus.Gen(rng, nslots=4, nnames=2, w=W, odd_rules=0.0)
    g.fdcap = 0.75
    scn = g.scenario(nrounds=rng.choice([10, 14]), concurrency=0.3, burst=0.3)
    # 'join' must not be the last op of a slot in a round (nothing to be written together with)
    surplus = {}
    for r in scn['rounds']:
        for slot, ops in r.get('ops', {}).items():
            # a read that brings more descriptors than the loader has room for (maximum per message minus what is
            # already held) kills the connection at read time, together with whatever else that read contained:
            # keep such a write the first of its burst and keep the held surplus small, so that the point where
            # the connection dies is determinate
            for j, o in enumerate(ops):
                if o.get('k') == 'connect':
                    surplus[slot] = 0
                if o.get('k') != 'send' or 'fds' not in o:
                    continue
                if o['fds'] > 16 and j > 0 or (o['fds'] <= 16 and surplus.get(slot, 0) + o['fds'] > 12):
                    o['fds'] = 1
                    o['nfd'] = 1
                surplus[slot] = surplus.get(slot, 0) + max(0, o['fds'] - o.get('nfd', o['fds']))
            # descriptors are pooled per connection in arrival order, so a message that announces more than it
            # brings could be served from descriptors written *after* it in the same burst: keep such a message
            # the last one of its burst, which makes the expected outcome determinate
            for o in ops[:-1]:
                if o.get('k') == 'send' and o.get('nfd', o.get('fds', 0)) > o.get('fds', 0):
                    o['nfd'] = o.get('fds', 0)
            if ops and ops[-1].get('join'):
                ops[-1].pop('join')
            for a, b in zip(ops, ops[1:]):
                if a.get('join') and b.get('k') != 'send':
                    a.pop('join')
    return scn


def run(ctx):
    return busprop.run(ctx, gen, 'C15.cfg', 72, 1600, RULE)


def replay(ctx, path):
    return busprop.replay(ctx, path)

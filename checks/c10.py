"""C10 no byte sequence from a client harms the bus or the other clients."""
import struct
import busprop
import gen_bus
import gen_wire
from dbuswire import (build_message, parse_message, message_length, F_PATH, F_INTERFACE, F_MEMBER, F_ERROR_NAME,
                      F_REPLY_SERIAL, F_DESTINATION, F_SENDER)

RULE = ('python-random histories: three well-behaved clients (names, match rules incl. eavesdropping, signals, calls, replies, sometimes a '
        'monitor) while one or two hostile clients write raw bytes: every single-site corruption class of C01 applied to bus-meaningful '
        'messages of both byte orders (length words at limit values, bad padding/booleans/UTF-8/signatures/type/version/serial, reserved '
        'Local interface and path, forged fields), truncations followed by silence then abrupt close, trailing garbage, random garbage, '
        'oversized messages, floods of valid messages, re-Hello, traffic before Hello, abrupt closes; plus strangers that never authenticate '
        '(junk, half handshakes, over-long lines, connect-and-go, floods of handshake lines whose answers are never read, up to 24 kept open; at the end of every history the bus must be asleep: processor time in a window of silence); every eighth scenario fills max_incomplete_connections exactly (in half of them one of the unfinished connections leaves and its place must be usable again at once) '
        'with authenticated connections that then all say Hello, after which new clients must be served.  Wire.tla decides per write whether it is a message, '
        'invalid or incomplete; TLC requires every inbox of every client to be exactly what Bus.tla stages (so nothing of an invalid '
        'message is visible and every bystander call is answered), no stalled barrier, daemon alive without sanitizer report; '
        'distinct = distinct scenario texts')
W = {'req': 1.5, 'rel': 0.5, 'query': 0.5, 'addmatch': 1.5, 'rmmatch': 0.3, 'signal': 2, 'call': 2, 'reply': 2,
     'usignal': 0.5, 'close': 0.2, 'driver_other': 0.1, 'nodest': 0.1}
MAXMSG = 70000
LOCAL_IFC = 'org.freedesktop.DBus.Local'
LOCAL_PATH = '/org/freedesktop/DBus/Local'
JUNK = [b'', b'\0', b'\0AUTH EXTERNAL 30\r\n', b'\0AUTH ', b'\0AUTH EXTERNAL 30\r\nBEGIN', b'GET / HTTP/1.0\r\n\r\n',
        b'\0AUTH ANONYMOUS\r\nDATA\r\nCANCEL\r\nERROR\r\n' * 4, b'\0' + b'A' * 20000, b'\0BEGIN\r\n', b'l\1\0\1' + b'\0' * 12,
        b'\0NEGOTIATE_UNIX_FD\r\n', b'\0AUTH DBUS_COOKIE_SHA1 30\r\n', b'\xff' * 64]


def base_message(rng, sites):
    """a message that means something on this bus (bystanders own com.example.A/B and listen on com.example.I*)"""
    r = rng.random()
    le = rng.random() < 0.5
    serial = rng.choice([1, 7, 1001, 65536, 0x7fffffff])
    flags = rng.choice([0, 0, 1, 2, 3, 4, 0x80])
    sig, body = rng.choice([('', []), ('s', ['x']), ('s', ['com.example.A']), ('su', ['a', 7]), ('as', [['p', 'q']]),
                            ('v', [('s', 'inner')]), ('a{sv}', [[('k', ('u', 5))]]), ('(is)b', [(3, 'z'), True]),
                            ('ay', [[1, 2, 3]]), ('o', ['/a/b']), ('g', ['a{sv}']), ('d', [1.5]), ('x', [-2])])
    f = {}
    if r < 0.35:
        ty = 4
        f[F_PATH] = rng.choice(gen_bus.PATHS)
        f[F_INTERFACE] = rng.choice(gen_bus.IFACES)
        f[F_MEMBER] = rng.choice(gen_bus.MEMBERS)
        if rng.random() < 0.3:
            f[F_DESTINATION] = rng.choice(gen_bus.NAMES)
    elif r < 0.65:
        ty = 1
        f[F_PATH] = rng.choice(gen_bus.PATHS)
        f[F_INTERFACE] = rng.choice(gen_bus.IFACES)
        f[F_MEMBER] = rng.choice(gen_bus.MEMBERS)
        f[F_DESTINATION] = rng.choice(gen_bus.NAMES + ['com.example.Nobody', 'org.freedesktop.DBus'])
        if f[F_DESTINATION] == 'org.freedesktop.DBus':
            f[F_INTERFACE] = 'com.example.Nope'
    elif r < 0.8:
        ty = rng.choice([2, 3])
        f[F_REPLY_SERIAL] = rng.choice([1, 1001, 1002])
        f[F_DESTINATION] = rng.choice(gen_bus.NAMES)
        if ty == 3:
            f[F_ERROR_NAME] = 'com.example.Err'
    elif r < 0.9:
        # the reserved names a client must never be able to put on the wire
        ty = rng.choice([4, 4, 1])
        f[F_PATH] = rng.choice([LOCAL_PATH, '/a'])
        f[F_INTERFACE] = LOCAL_IFC if f[F_PATH] == '/a' or rng.random() < 0.7 else 'com.example.I'
        f[F_MEMBER] = 'Disconnected'
        if rng.random() < 0.4:
            f[F_DESTINATION] = rng.choice(gen_bus.NAMES)
    else:
        ty = rng.choice([5, 77, 255])          # unknown message types are legal and ignored
        f[F_PATH] = '/a'
        f[F_INTERFACE] = 'com.example.I'
        f[F_MEMBER] = 'Ma'
        if rng.random() < 0.5:
            f[F_DESTINATION] = rng.choice(gen_bus.NAMES)
    if rng.random() < 0.3:
        f[F_SENDER] = rng.choice([':1.1', 'org.freedesktop.DBus', 'com.example.A'])
    items = list(f.items())
    rng.shuffle(items)
    raw = []
    if rng.random() < 0.15:
        raw.append((rng.choice([11, 42, 255]), 's', 'unk'))
    return build_message(ty, serial, dict(items), sig, body, flags, le=le, raw_fields=raw, sites=sites)


def representable(data):
    """serials the 32-bit integers of the model checker can hold (bookkeeping, not a verdict)"""
    if len(data) < 16 or data[0:1] not in (b'l', b'B'):
        return True
    e = '<' if data[0:1] == b'l' else '>'
    if struct.unpack_from(e + 'I', data, 8)[0] >= 1 << 31:
        return False
    try:
        m = parse_message(data[:message_length(data[:16])])
        return m.fields.get(F_REPLY_SERIAL, 0) < (1 << 31)
    except Exception:
        return True


def cut(data):
    """one candidate message per write op: cut where the first 16 bytes say the message ends"""
    out = []
    while True:
        if len(data) < 16 or data[0:1] not in (b'l', b'B'):
            out.append(data)
            return out
        n = message_length(data[:16])
        if n > MAXMSG or len(data) <= n:
            out.append(data)
            return out
        out.append(data[:n])
        data = data[n:]


def hostile_writes(rng):
    sites = []
    m = base_message(rng, sites)
    r = rng.random()
    if r < 0.12:
        cands = [m]                                   # perfectly valid
    elif r < 0.2:
        cands = [bytes(rng.randrange(256) for _ in range(rng.choice([1, 15, 16, 17, 40, 200])))]
    elif r < 0.25:
        cands = [h for h in gen_wire.header_limit_cases()]
    else:
        cands = gen_wire.corruptions(rng, m, sites)
    cands = [c for c in cands if c and representable(c)]
    if not cands:
        cands = [m]
    return [{'k': 'raw', 'hex': c.hex()} for c in cut(rng.choice(cands))]


def at_the_incomplete_limit(rng):
    """exactly max_incomplete_connections connections authenticate and only then say Hello (the bus stops accepting while
    the limit is reached and must resume when they complete); afterwards new clients must still be served"""
    n = rng.choice([2, 3])
    cfg = {'maxIncomplete': n, 'maxMsgSize': MAXMSG, 'rawobs': True}
    slots = [4, 5, 6][:n]
    rounds = [{'ops': {'1': [{'k': 'connect', 'uid': 0}, {'k': 'hello'}, {'k': 'addmatch', 'rule': gen_bus.NOC_RULE}]}}]
    for s in slots:
        rounds.append({'ops': {str(s): [{'k': 'connect', 'uid': 0}]}})
    order = slots[:]
    rng.shuffle(order)
    if rng.random() < 0.5:
        # one of them leaves without ever saying Hello: the place it held must become usable again at once -- a
        # newcomer is accepted while the others are still incomplete (the limit is reached again), and so on
        gone = order.pop(0)
        rounds.append({'ops': {str(gone): [{'k': 'aclose'}]}})
        rounds.append({'ops': {str(gone): [{'k': 'connect', 'uid': 0}]}})
        rounds.append({'ops': {str(gone): [{'k': 'hello'}, {'k': 'query', 'q': 'list'}]}})
    for s in order:
        rounds.append({'ops': {str(s): [{'k': 'hello'}]}})
    rounds.append({'ops': {'2': [{'k': 'connect', 'uid': 0}, {'k': 'hello'}, {'k': 'req', 'n': 'com.example.A', 'f': 0}]}})
    for s in slots:
        rounds.append({'ops': {str(s): rng.choice([[{'k': 'aclose'}], [{'k': 'close'}], hostile_writes(rng)])}})
    rounds.append({'ops': {'3': [{'k': 'connect', 'uid': 0}, {'k': 'hello'}],
                           '1': [{'k': 'send', 'ty': 1, 'dst': 'com.example.A', 'path': '/a', 'ifc': 'com.example.I', 'mem': 'Ma', 'sig': '', 'body': []}]}})
    rounds.append({'ops': {'1': [{'k': 'query', 'q': 'list'}]}})
    return {'cfg': cfg, 'rounds': rounds}


def gen(rng, i):
    if i % 8 == 5:
        return at_the_incomplete_limit(rng)
    g = gen_bus.Gen(rng, nslots=3, nnames=2, w=W, odd_rules=0.02, eavesdrop=0.25)
    if rng.random() < 0.4:
        g.w = dict(g.w, monitor=0.15)
    scn = g.scenario(nrounds=rng.choice([10, 14]), concurrency=0.3, burst=0.2)
    scn.setdefault('cfg', {}).update(maxMsgSize=MAXMSG, rawobs=True)
    hostile = [4] if rng.random() < 0.6 else [4, 5]
    muted = {}
    # bystanders take their names first, so that hostile messages have somebody to reach
    scn['rounds'].insert(3, {'ops': {'1': [{'k': 'req', 'n': 'com.example.A', 'f': 0}],
                                     '2': [{'k': 'req', 'n': 'com.example.B', 'f': 0},
                                           {'k': 'addmatch', 'rule': "type='signal'"}]}})
    for r in scn['rounds'][4:]:
        if rng.random() < 0.25:
            r['pre'] = [{'n': rng.choice([1, 1, 3, 10]), 'hex': rng.choice(JUNK).hex(), 'keep': rng.random() < 0.5}
                        for _ in range(rng.choice([1, 2]))]
            if rng.random() < 0.3:
                # handshake abuse at full pace: command lines nobody will ever read the answers to, as many as the bus
                # takes, and the connection stays (the bus must go to sleep on it, not poll it)
                line = rng.choice([b'FROBNICATE ' + b'x' * 50, b'AUTH NOPE', b'DATA 00', b'ERROR "' + b'e' * 40 + b'"', b'CANCEL'])
                r['pre'].append({'n': 1, 'hex': ((b'\0' if rng.random() < 0.8 else b'') + line + b'\r\n').hex(), 'flood': 6000, 'keep': True})
        for h in hostile:
            if rng.random() < 0.25:
                continue
            if muted.get(h):
                if rng.random() < 0.6:
                    r['ops'][str(h)] = [{'k': 'aclose'}]
                    muted[h] = False
                continue
            ops = [{'k': 'connect', 'uid': 0}]
            if rng.random() < 0.85:
                ops.append({'k': 'hello'})
            x = rng.random()
            if x < 0.08:
                r['ops'][str(h)] = [{'k': 'aclose'}]
                continue
            if x < 0.14:
                ops.append({'k': 'big', 'n': MAXMSG + rng.choice([1, 64, 5000])})
            elif x < 0.22:
                for j in range(rng.choice([10, 25])):     # flood of valid traffic
                    ops.append({'k': 'send', 'ty': 4, 'path': '/a', 'ifc': 'com.example.I', 'mem': 'Ma', 'sig': 's',
                                'body': ['flood%d' % j]})
            else:
                for _ in range(rng.choice([1, 1, 2, 3])):
                    w = hostile_writes(rng)
                    ops.extend(w)
                    last = bytes.fromhex(w[-1]['hex'])
                    if len(last) < 16 or (last[0:1] in (b'l', b'B') and message_length(last[:16]) <= MAXMSG
                                          and len(last) < message_length(last[:16])):
                        muted[h] = True
                        break
                if rng.random() < 0.3 and not muted.get(h):
                    ops.append({'k': 'addmatch', 'rule': "type='signal'"})
            r['ops'][str(h)] = ops
        if 'order' in r:
            for h in hostile:
                if str(h) in r['ops'] and h not in r['order']:
                    r['order'].insert(rng.randrange(len(r['order']) + 1), h)
    return scn


def classify(rej):
    return busprop.default_signature(rej)


def run(ctx):
    return busprop.run(ctx, gen, 'C10.cfg', 64, 1500, RULE, classify=classify, mc_cfg_thorough='C10t.cfg')


def replay(ctx, path):
    return busprop.replay(ctx, path)

"""C12 header edits keep a message valid and touch nothing else."""
import random
import vlib
import gen_wire

RULE = ('base messages received from the wire (random field order, unknown fields interleaved, both byte orders, random bodies); sequences of '
        '1-8 edits: set / replace (longer, shorter, same length, lengths 1..24 and 250..255 crossing every 8-byte padding boundary) / delete of '
        'destination, sender, path, interface, member, error name, reply serial, container instance, and strip-unknown-fields; after every edit the '
        'serialised bytes must decode (Wire.tla) to the previous abstract message with exactly that field changed, the getters must agree, and the '
        'bytes must be a fully valid message whenever the mandatory fields are present; non-trivial = distinct (base, edit sequence) pairs')


def value(rng, f):
    n = rng.choice(list(range(1, 25)) + [249, 250, 251, 252])
    if f in 'DS':
        return (b':1.' + b'7' * n) if rng.random() < 0.3 else (b'a.' + b'b' * n)
    if f in 'PC':
        return b'/' + b'p' * n if rng.random() < 0.9 else b'/'
    if f in 'IE':
        return b'i.' + b'j' * n
    return b'm' * n


def ops(rng):
    out = []
    for _ in range(rng.randint(1, 8)):
        f = rng.choice('DDSSPPIIMMEECCRU')
        if f == 'U':
            out.append(({'f': 'U', 'del': False, 'v': []}, 'U'))
        elif f == 'R':
            n = rng.choice([1, 255, 256, 65536, 4294967295, rng.randrange(1, 1 << 32)])
            out.append(({'f': 'R', 'del': False, 'v': [n & 255, (n >> 8) & 255, (n >> 16) & 255, (n >> 24) & 255]}, 'R=%d' % n))
        elif rng.random() < 0.25:
            out.append(({'f': f, 'del': True, 'v': []}, f + '-'))
        else:
            v = value(rng, f)
            out.append(({'f': f, 'del': False, 'v': list(v)}, f + '=' + v.hex()))
    return out


def run(ctx):
    rng = random.Random(ctx.seed)
    lines, recs = [], []
    n = 2500 if ctx.quick else 30000
    while len(lines) < n:
        base = gen_wire.rand_message(rng, maxargs=2)
        if len(base) > 400:
            continue
        for _ in range(3):
            o = ops(rng)
            lines.append(base.hex() + ' ' + ';'.join(x[1] for x in o))
            recs.append({'k': 'edit', 'b': list(base), 'ops': [x[0] for x in o], '_ops': [x[1] for x in o]})
    outs, crashes = vlib.run_harness(ctx.build, 'edit', lines)
    good, violations = [], []
    for r, o in zip(recs, outs):
        if o is None:
            continue
        steps = [{'ok': st['ok'], 'bytes': list(bytes.fromhex(st['bytes'])), 'm': st['m']} for st in o['steps']]
        good.append(dict(r, base=o['base'], steps=steps))
    for i, err in crashes:
        import re
        m = re.search(r'(assertion failed "[^"]*"|SUMMARY: \S+ \S+|runtime error: [^\n]*)', err)
        violations.append({'signature': 'crash:' + (m.group(1) if m else 'abort'), 'line': lines[i][:600], 'stderr': err[-2000:]})
    bad = vlib.check_cases([{k: v for k, v in g.items() if not k.startswith('_')} for g in good], shard=150)
    for i in bad:
        g = good[i]
        violations.append({'signature': 'edit:%s:%s' % (bytes(g['b'])[:16].hex(), ';'.join(g['_ops'])[:80]), 'base': bytes(g['b']).hex(), 'ops': g['_ops'],
                           'steps': [bytes(s['bytes']).hex() for s in g['steps']], 'what': 'an edit step left bytes / getters that differ from HeaderEdit semantics'})
    mc = vlib.model_check('HeaderEdit.tla', 'HeaderEdit.cfg', timeout=300, workers=4)
    if not mc['ok']:
        violations.append({'signature': 'model:' + mc['violated'], 'what': 'HeaderEdit.tla violates ' + mc['violated']})
    cov = {'states': mc['states'], 'transitions': mc['transitions'], 'traces_validated_against_impl': len(good) - len(bad),
           'samples': [{'base': bytes(g['b']).hex(), 'ops': g['_ops']} for g in good[:3]],
           'evaluations': len(good), 'distinct_nontrivial': len({(bytes(g['b']), tuple(g['_ops'])) for g in good}), 'rule': RULE, 'exhaustive': False,
           'explanation': 'HeaderEdit.tla: edits on the abstract header commute with serialise/decode (TLC BFS over edit sequences); implementation: '
                          'every step of every edit sequence decoded by Wire.tla and compared'}
    return {'level': 'model_checking', 'coverage': cov, 'violations': violations,
            'assumptions': ['TLC and the CommunityModules JSON reader are correct', 'wirecase.c applies the public setters exactly as instructed',
                            'only valid new values are set (invalid values are refused by the API precondition checks)']}


def replay(ctx, path):
    import json
    return {'coverage': {}, 'violations': [json.load(open(path))]}

"""C13 configured resource limits are never exceeded."""
import busprop
import gen_bus

RULE = ('python-random histories with every limit set to 1-3 in the configuration (completed connections, per-user connections '
        'with three uids, names, match rules, pending replies, message size): connect/Hello/close, RequestName/ReleaseName '
        'with queues and replacement, AddMatch/RemoveMatch, unanswered calls to several callees, oversize messages (limits of 70000 and of 1700 / 1900 bytes -- below the size of one read --, messages whose header and body are each within the limit and only their sum is over it), and in every second history one or two ReloadConfig calls that change all limits while the bus runs, every eleventh history fills max_incomplete_connections exactly and frees places by completion or by leaving; the model '
        'refuses exactly the request that would exceed a limit and nothing else; distinct = distinct scenario texts')
W = {'req': 4, 'rel': 2, 'query': 0.5, 'addmatch': 3, 'rmmatch': 1.5, 'signal': 0.5, 'call': 5, 'reply': 2,
     'usignal': 0.3, 'close': 1.5, 'driver_other': 0.1, 'nodest': 0.1, 'hello': 0.5, 'big': 0.3}


def gen(rng, i):
    if i % 11 == 7:
        # the limit on connections that have not finished connecting: filled exactly, freed by completion or by leaving
        import c10
        return c10.at_the_incomplete_limit(rng)
    cfg = {'maxNames': rng.choice([2, 3, 4]), 'maxMatch': rng.choice([1, 2, 3]), 'maxReplies': rng.choice([1, 2, 3]),
           'maxCompleted': rng.choice([2, 3, 4, 100000]), 'maxPerUser': rng.choice([1, 2, 3, 100000]),
           # (a limit below the size of one read: an oversize message then arrives whole, in one piece)
           'maxMsgSize': rng.choice([70000, 70000, 1700, 1900])}
    g = gen_bus.Gen(rng, nslots=5, nnames=3, uids=(0, 1000, 65534), w=W, cfg=cfg, odd_rules=0.05)
    scn = g.scenario(nrounds=rng.choice([12, 16]), concurrency=0.35, burst=0.3, late_hello=0.2)
    if cfg['maxMsgSize'] < 2000:
        # one message that arrives whole in a single read and is over the limit only by the SUM of header and body
        at = rng.randrange(len(g.slots), len(scn['rounds']) + 1)
        scn['rounds'].insert(at, {'ops': {str(rng.choice(g.slots)): [{'k': 'big', 'n': cfg['maxMsgSize'] - rng.choice([8, 40, 60])}]}})
    # the limits change while the bus runs (ReloadConfig): what exists stays, the new values decide from then on
    if i % 2 == 0:
        for _ in range(rng.choice([1, 2])):
            new = {'maxNames': rng.choice([2, 3, 4]), 'maxMatch': rng.choice([1, 2, 3]), 'maxReplies': rng.choice([1, 2, 3]),
                   'maxCompleted': rng.choice([2, 3, 4, 100000]), 'maxPerUser': rng.choice([1, 2, 3, 100000])}
            at = rng.randrange(len(g.slots), len(scn['rounds']) + 1)
            scn['rounds'].insert(at, {'ops': {str(rng.choice(g.slots)): [{'k': 'reload', 'cfg': new}]}})
    return scn


def run(ctx):
    import vlib
    res = busprop.run(ctx, gen, 'C13.cfg', 66, 1200, RULE)
    # the closed model with limits that change while the bus runs: nothing grows at or above the limit in force
    mc = vlib.model_check('BusMC.tla', 'C13r.cfg', timeout=600)
    res['coverage']['reload_model'] = {'states': mc['states'], 'transitions': mc['transitions'], 'config': 'C13r.cfg',
                                       'properties': 'GrowthOnlyBelowLimit, ReloadTouchesOnlyCfg (+ the C13.cfg action properties)'}
    if not mc['ok']:
        res['violations'].append({'signature': 'model:' + mc['violated'], 'what': 'TLC found the specification itself violates ' + mc['violated'] + ' (C13r.cfg)',
                                  'tlc': mc['out'][-6000:]})
    return res


def replay(ctx, path):
    return busprop.replay(ctx, path)

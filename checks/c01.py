"""C01 untrusted bytes become a message only if spec-valid, and always safely."""
import random
import vlib
import gen_wire

RULE = ('structurally random valid messages (all types, fields in random order, unknown fields, bodies of random signatures to depth 3, both byte '
        'orders, boundary values), every single-site corruption of each (length words +-1/0/huge/limits, padding bytes, booleans, text bytes, '
        'NUL terminators, signature characters, endianness/type/version/serial bytes), truncation at every offset, trailing bytes, two messages in '
        'one buffer, limit values on the bare 16-byte header, random bytes; for each case dbus_message_demarshal, _bytes_needed and a '
        'DBusMessageLoader are run under ASan/UBSan and every accessor / iterator of an accepted message is walked; '
        'non-trivial = distinct byte strings')


def run(ctx):
    rng = random.Random(ctx.seed)
    cs = gen_wire.dem_cases(rng, 450 if ctx.quick else 6000, 600 if ctx.quick else 8000)
    cs = list(dict.fromkeys(cs))
    outs, crashes = vlib.run_harness(ctx.build, 'demarshal', [c.hex() or '-' for c in cs])
    recs, violations = [], []
    for c, o in zip(cs, outs):
        if o is None:
            continue
        o.pop('re', None)
        o.pop('ename', None)
        recs.append(dict(o, k='dem', b=list(c)))
    for i, err in crashes:
        import re
        m = re.search(r'(assertion failed "[^"]*"|SUMMARY: \S+ \S+|runtime error: [^\n]*)', err)
        violations.append({'signature': 'crash:' + (m.group(1) if m else 'abort'), 'bytes': cs[i].hex(), 'stderr': err[-2500:],
                           'what': 'libdbus aborted / sanitizer report while parsing or reading back these bytes'})
    # arrays at the 2^26-byte limit (the harness builds them; TLC applies the length clause to the numbers)
    big = []
    for el in ('y', 'q', 'u', 'x', 'b') if ctx.quick else ('y', 'n', 'q', 'i', 'u', 'b', 'x', 't', 'd'):
        sz = {'y': 1, 'n': 2, 'q': 2, 'x': 8, 't': 8, 'd': 8}.get(el, 4)
        for nb in ((1 << 26), (1 << 26) + sz) if ctx.quick else ((1 << 26) - sz, (1 << 26), (1 << 26) + sz, (1 << 26) + 8 * sz):
            big.append((el, nb))
    from concurrent.futures import ThreadPoolExecutor
    with ThreadPoolExecutor(max_workers=5) as ex:
        bres = list(ex.map(lambda t: vlib.run_harness(ctx.build, 'bigarr', ['%s %d' % t]), big))
    brecs = []
    for (el, nb), (bo, bc) in zip(big, bres):
        if bc or not bo or bo[0] is None:
            violations.append({'signature': 'crash:bigarr:%s:%d' % (el, nb), 'stderr': (bc[0][1] if bc else '')[-2000:],
                               'what': 'libdbus aborted on a message with one array of %d bytes' % nb})
            continue
        brecs.append(dict(bo[0], k='bigarr', elem=ord(el), nbytes=nb))
    bbad = vlib.check_cases(brecs, shard=50)
    for i in bbad:
        r = brecs[i]
        violations.append({'signature': 'bigarr:%s:%d:acc=%d' % (chr(r['elem']), r['nbytes'], r['acc']), 'case': r,
                           'what': 'an array of this many bytes was %s although the specification says the opposite (limit 2^26 bytes)' % ('accepted' if r['acc'] else 'refused')})
    bad = vlib.check_cases(recs, shard=500, devnames=('LenientUniqueName',))
    for i in bad:
        r = recs[i]
        violations.append({'signature': 'demarshal:acc=%d:need=%d:%s' % (r['acc'], r['need'], bytes(r['b'])[:48].hex()), 'bytes': bytes(r['b']).hex(),
                           'library': {k: r[k] for k in ('acc', 'need', 'lc', 'ln')},
                           'what': 'verdict or decoded content differs from Wire.tla'})
    mc = vlib.model_check('SyntaxSelf.tla', 'SyntaxSelf.cfg', timeout=120, workers=1)
    acc = sum(r['acc'] for r in recs)
    cov = {'states': mc['states'], 'transitions': mc['transitions'], 'traces_validated_against_impl': len(recs) - len(bad),
           'samples': [{'bytes': bytes(r['b']).hex(), 'accepted': r['acc'], 'bytes_needed': r['need']} for r in recs[:2] + recs[-2:]],
           'evaluations': len(recs), 'distinct_nontrivial': len(recs), 'accepted_by_library': acc, 'rule': RULE, 'exhaustive': False,
           'explanation': 'TLC evaluates Wire.tla (Frame, MessageDec) on every byte string and compares verdict, bytes-needed, loader state and the '
                          'complete decoded value tree with what libdbus reported'}
    return {'level': 'model_checking', 'coverage': cov, 'violations': violations,
            'assumptions': ['TLC and the CommunityModules JSON reader are correct',
                            'harness/c/wirecase.c prints faithfully what the public accessors and iterators return',
                            'messages are kept under ~600 bytes; the 128 MiB limits are exercised on the fixed header only']}


def replay(ctx, path):
    import json
    v = json.load(open(path))
    outs, crashes = vlib.run_harness(ctx.build, 'demarshal', [v['bytes'] or '-'])
    if crashes:
        return {'coverage': {}, 'violations': [v]}
    o = outs[0]
    o.pop('re', None)
    o.pop('ename', None)
    bad = vlib.check_cases([dict(o, k='dem', b=list(bytes.fromhex(v['bytes'])))], devnames=('LenientUniqueName',))
    return {'coverage': {}, 'violations': [v] if bad else []}

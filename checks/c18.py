"""C18 a monitor sees everything that matches and can affect nothing."""
import busprop
import gen_bus
import copy

RULE = ('python-random histories of ordinary traffic (names, match rules, calls, replies, signals, refused and undeliverable messages, '
        'connects and disconnects) in which 1-2 privileged connections become monitors at random points (while owning or queued for names, '
        'with calls outstanding) with empty or selective filters, and occasionally speak; every scenario is executed twice, with and without '
        'the BecomeMonitor operations, and both traces must be behaviours of Bus.tla (in which a monitor only adds copies); '
        'distinct = distinct scenario texts')
W = {'req': 2, 'rel': 1, 'query': 0.4, 'addmatch': 1.5, 'rmmatch': 0.5, 'signal': 3, 'call': 3, 'reply': 2.5,
     'usignal': 1, 'close': 0.4, 'driver_other': 0.4, 'nodest': 0.2, 'monitor': 0.9}


def gen(rng, i):
    if i % 2 == 1 and gen.last is not None:
        # the same history without monitors: BecomeMonitor ops (and what the monitor says afterwards) removed
        scn = copy.deepcopy(gen.last)
        mons = set()
        for r in scn['rounds']:
            for s, ops in list(r.get('ops', {}).items()):
                if s in mons:
                    r['ops'][s] = []
                    continue
                keep = []
                for o in ops:
                    if o['k'] == 'monitor':
                        mons.add(s)
                        keep.append({'k': 'close'})     # the would-be monitor simply leaves
                        break
                    keep.append(o)
                r['ops'][s] = keep
        gen.last = None
        return scn
    g = gen_bus.Gen(rng, nslots=4, nnames=2, w=W, eavesdrop=0.1, odd_rules=0.05,
                    cfg={'replyTimeoutMs': 300} if i % 6 == 4 else None)
    scn = g.scenario(nrounds=rng.choice([10, 14]), concurrency=0.3, burst=0.25)
    gen.last = scn
    return scn


gen.last = None


def run(ctx):
    gen.last = None
    return busprop.run(ctx, gen, 'C18.cfg', 64, 1200, RULE, chunk=4)


def replay(ctx, path):
    return busprop.replay(ctx, path)

"""C18 a monitor sees everything that matches and can affect nothing."""
import busprop
import gen_bus
import copy

RULE = ('python-random histories of ordinary traffic (names, match rules, calls, replies, signals, refused and undeliverable messages, '
        'connects and disconnects) in which 1-2 privileged connections become monitors at random points (while owning or queued for names, '
        'with calls outstanding) with empty or selective filters, and occasionally speak; every scenario is executed twice, with and without '
        'the BecomeMonitor operations, and both traces must be behaviours of Bus.tla (in which a monitor only adds copies); every eighth pair is a connection holding a mixture of owned and queued names, requested in any order, when it becomes a monitor; '
        'distinct = distinct scenario texts')
W = {'req': 2, 'rel': 1, 'query': 0.4, 'addmatch': 1.5, 'rmmatch': 0.5, 'signal': 3, 'call': 3, 'reply': 2.5,
     'usignal': 1, 'close': 0.4, 'driver_other': 0.4, 'nodest': 0.2, 'monitor': 0.9}


def call_then_monitor(rng):
    """a connection that never added a match rule has calls outstanding when it becomes a monitor; afterwards the callees
    answer, stay silent (reply timeout) or leave"""
    cfg = {'replyTimeoutMs': 300} if rng.random() < 0.4 else None
    rounds = [{'ops': {'1': [{'k': 'connect', 'uid': 0}, {'k': 'hello'}, {'k': 'addmatch', 'rule': gen_bus.NOC_RULE}]}},
              {'ops': {'2': [{'k': 'connect', 'uid': 0}, {'k': 'hello'}] + ([{'k': 'req', 'n': 'com.example.B', 'f': 0}] if rng.random() < 0.5 else [])}},
              {'ops': {'3': [{'k': 'connect', 'uid': 0}, {'k': 'hello'}, {'k': 'req', 'n': 'com.example.A', 'f': 0}]}},
              {'ops': {'4': [{'k': 'connect', 'uid': 0}, {'k': 'hello'}]}}]
    calls = []
    ops = []
    for j in range(rng.choice([1, 2, 3])):
        dst = rng.choice(['com.example.A', {'slot': 3}, {'slot': 4}])
        ops.append({'k': 'send', 'ty': 1, 'dst': dst, 'path': '/a', 'ifc': 'com.example.I', 'mem': 'Ma', 'sig': 'u', 'body': [j],
                    'ser': 9001 + j, 'fl': 0})
        calls.append((3 if dst != {'slot': 4} else 4, 9001 + j))
    # somebody is also waiting for the monitor-to-be
    rounds.append({'ops': {'1': [{'k': 'send', 'ty': 1, 'dst': {'slot': 2}, 'path': '/a', 'ifc': 'com.example.I', 'mem': 'Mb', 'sig': '',
                                  'body': [], 'ser': 8001, 'fl': 0}]}})
    rounds.append({'ops': {'2': ops}})
    rounds.append({'ops': {'2': [{'k': 'monitor', 'rules': rng.choice([[], [], ["type='error'"], ["type='signal'"]]), 'flags': 0}]}})
    tail = []
    for callee in (3, 4):
        r = rng.random()
        mine = [c for c in calls if c[0] == callee]
        if r < 0.45:
            tail.append({'ops': {str(callee): [{'k': 'close'}]}})
        elif r < 0.7 and mine:
            tail.append({'ops': {str(callee): [{'k': 'send', 'ty': 2, 'dst': {'slot': 2}, 'rs': mine[0][1], 'sig': 's', 'body': ['late']}]}})
        else:
            tail.append({'ops': {str(callee): [{'k': 'query', 'q': 'list'}]}})
    rng.shuffle(tail)
    rounds += tail
    if cfg:
        rounds.append({'ops': {'1': [{'k': 'sleep', 'ms': 350}, {'k': 'query', 'q': 'list'}]}})
    rounds.append({'ops': {'1': [{'k': 'send', 'ty': 4, 'path': '/a', 'ifc': 'com.example.I', 'mem': 'Sig', 'sig': '', 'body': []}]}})
    rounds.append({'ops': {'1': [{'k': 'query', 'q': 'list'}]}})
    if rng.random() < 0.7:
        rounds.append({'ops': {'2': [monitor_speaks(rng)]}})
        rounds.append({'ops': {'1': [{'k': 'query', 'q': 'list'}]}})
    return {'cfg': cfg or {}, 'rounds': rounds}


def monitor_speaks(rng):
    """something a monitor might try to say: whatever it is -- with or without a destination, any type -- the bus hangs up
    on it and nobody (the monitor included) gets anything out of it"""
    r = rng.random()
    if r < 0.2:
        return {'k': 'query', 'q': 'list'}
    if r < 0.35:
        return {'k': 'send', 'ty': 4, 'path': '/a', 'ifc': 'com.example.I', 'mem': 'Sig', 'sig': '', 'body': []}
    if r < 0.5:
        return {'k': 'send', 'ty': 1, 'dst': 'com.example.A', 'path': '/a', 'ifc': 'com.example.I', 'mem': 'Ma', 'sig': '', 'body': []}
    if r < 0.7:
        return {'k': 'send', 'ty': 1, 'path': '/x', 'ifc': rng.choice(['org.freedesktop.DBus.Peer', 'com.example.I']), 'mem': 'Ping', 'sig': '', 'body': []}
    if r < 0.85:
        return {'k': 'send', 'ty': 2, 'rs': rng.choice([1, 9001]), 'sig': '', 'body': []}
    return {'k': 'send', 'ty': 3, 'rs': 1, 'err': 'com.example.Err', 'sig': '', 'body': []}


def names_then_monitor(rng):
    """the monitor-to-be holds a mixture of names -- primary for some, queued for others, requested in any order -- when it
    becomes a monitor: every one of them is given up (owners change, queues shrink), calls to them no longer reach it, and
    it inherits nothing when the others release later"""
    names = ['com.example.A', 'com.example.B', 'com.example.C']
    rounds = [{'ops': {'1': [{'k': 'connect', 'uid': 0}, {'k': 'hello'}, {'k': 'addmatch', 'rule': gen_bus.NOC_RULE}]}},
              {'ops': {'3': [{'k': 'connect', 'uid': 0}, {'k': 'hello'}]}},
              {'ops': {'2': [{'k': 'connect', 'uid': 0}, {'k': 'hello'}]}}]
    theirs = rng.sample(names, rng.choice([1, 2]))         # names slot 3 owns first: slot 2 will be queued for them
    rounds.append({'ops': {'3': [{'k': 'req', 'n': n, 'f': rng.choice([0, 1])} for n in theirs]}})
    order = names[:]
    rng.shuffle(order)
    rounds.append({'ops': {'2': [{'k': 'req', 'n': n, 'f': rng.choice([0, 0, 1])} for n in order]}})
    if rng.random() < 0.4:
        rounds.append({'ops': {'4': [{'k': 'connect', 'uid': 0}, {'k': 'hello'}, {'k': 'req', 'n': rng.choice(names), 'f': 0}]}})
    rounds.append({'ops': {'2': [{'k': 'monitor', 'rules': rng.choice([[], ["type='error'"], ["member='Nothing'"]]), 'flags': 0}]}})
    probe = []
    for n in names:
        probe.append({'k': 'query', 'q': rng.choice(['owner', 'queued']), 'n': n})
        probe.append({'k': 'send', 'ty': 1, 'dst': n, 'path': '/a', 'ifc': 'com.example.I', 'mem': 'Ma', 'sig': '', 'body': [], 'fl': 2})
    rounds.append({'ops': {'1': probe}})
    rounds.append({'ops': {'3': [{'k': 'rel', 'n': n} for n in theirs]}})
    rounds.append({'ops': {'1': [{'k': 'query', 'q': 'list'}] + [{'k': 'query', 'q': 'owner', 'n': n} for n in names]}})
    if rng.random() < 0.7:
        rounds.append({'ops': {'2': [monitor_speaks(rng)]}})
        rounds.append({'ops': {'1': [{'k': 'query', 'q': 'list'}]}})
    return {'cfg': {}, 'rounds': rounds}


def filter_on_departed(rng):
    """a monitor whose filter names another client's unique name (as destination or sender) keeps seeing what is addressed
    to that name after the client has left -- the calls nobody can deliver any more and the errors the bus answers them
    with -- exactly like a monitor that filters nothing"""
    rounds = [{'ops': {str(s): [{'k': 'connect', 'uid': 0}, {'k': 'hello'}] +
                       ([{'k': 'addmatch', 'rule': "type='signal'"}] if rng.random() < 0.5 else [])}} for s in (1, 2, 3, 4)]
    filt = rng.choice([["destination='{u3}'"], ["destination='{u3}'", "type='error'"], ["sender='{u3}'", "destination='{u3}'"]])
    rounds.append({'ops': {'2': [{'k': 'monitor', 'rules': filt, 'flags': 0}]}})
    if rng.random() < 0.5:
        rounds.append({'ops': {'4': [{'k': 'monitor', 'rules': [], 'flags': 0}]}})
    call = lambda ser: {'k': 'send', 'ty': 1, 'dst': {'slot': 3}, 'path': '/a', 'ifc': 'com.example.I', 'mem': 'Ma', 'sig': 'u', 'body': [ser], 'ser': ser, 'fl': 0}
    rounds.append({'ops': {'1': [call(6001)]}})
    rounds.append({'ops': {'3': [{'k': rng.choice(['close', 'aclose'])}]}})
    rounds.append({'ops': {'1': [call(6002), {'k': 'send', 'ty': 4, 'dst': {'slot': 3}, 'path': '/a', 'ifc': 'com.example.I', 'mem': 'Sig', 'sig': '', 'body': []}]}})
    rounds.append({'ops': {'1': [{'k': 'query', 'q': 'list'}]}})
    return {'cfg': {}, 'rounds': rounds}


def gen(rng, i):
    if i % 2 == 1 and gen.last is not None:
        # the same history without monitors: BecomeMonitor ops (and what the monitor says afterwards) removed
        scn = copy.deepcopy(gen.last)
        mons = set()
        for r in scn['rounds']:
            for s, ops in list(r.get('ops', {}).items()):
                if s in mons:
                    r['ops'][s] = []
                    continue
                keep = []
                for o in ops:
                    if o['k'] == 'monitor':
                        mons.add(s)
                        keep.append({'k': 'close'})     # the would-be monitor simply leaves
                        break
                    keep.append(o)
                r['ops'][s] = keep
        gen.last = None
        return scn
    if i % 8 == 6:
        gen.last = call_then_monitor(rng)
        return gen.last
    if i % 8 == 2:
        gen.last = names_then_monitor(rng)
        return gen.last
    if i % 16 == 12:
        gen.last = filter_on_departed(rng)
        return gen.last
    g = gen_bus.Gen(rng, nslots=4, nnames=2, w=W, eavesdrop=0.1, odd_rules=0.05,
                    cfg={'replyTimeoutMs': 300} if i % 6 == 4 else None)
    scn = g.scenario(nrounds=rng.choice([10, 14]), concurrency=0.3, burst=0.25)
    gen.last = scn
    return scn


gen.last = None


def run(ctx):
    gen.last = None
    return busprop.run(ctx, gen, 'C18.cfg', 64, 1200, RULE, chunk=4)


def replay(ctx, path):
    return busprop.replay(ctx, path)

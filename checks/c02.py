"""C02 built messages serialise to valid wire format and round-trip exactly."""
import random
import vlib
import gen_build

RULE = ('construction programs interpreted through the public API (append_basic, open/close_container, append_fixed_array): every single complete '
        'type of length <= 4 (quick) / 5 over a reduced alphabet as the body signature (exhaustive), plus random programs of 0-3 arguments with '
        'nesting depth <= 3, values at each basic type boundaries (NaN, signed zeros, empty/long strings, empty arrays of every alignment, '
        'variants of containers, dict entries), all message types, header-field subsets and flags; non-trivial = distinct program texts')


def run(ctx):
    rng = random.Random(ctx.seed)
    progs = []
    for sg in gen_build.all_sigs(5 if ctx.quick else 6):
        progs.append(gen_build.program(rng, [sg]))
        if not ctx.quick:
            progs.append(gen_build.program(rng, [sg, rng.choice('yqut')]))
    for _ in range(2500 if ctx.quick else 30000):
        progs.append(gen_build.program(rng))
    progs = [p for p in progs if len(p[2]) < 2600]
    outs, crashes = vlib.run_harness(ctx.build, 'build', [p[0] for p in progs])
    # the big-endian image of the same program goes through the parser (byte-order conversion)
    bouts, bcrashes = vlib.run_harness(ctx.build, 'demarshal', [p[3].hex() for p in progs])
    recs, violations, meta = [], [], []
    for p, o, b in zip(progs, outs, bouts):
        if o is None or b is None:
            continue
        if not o.get('built'):
            violations.append({'signature': 'build-refused:' + p[0][:60], 'program': p[0], 'what': 'the public API refused a well-typed program'})
            continue
        recs.append({'k': 'build', 'want': p[1], 'built': 1, 'bytes': list(bytes.fromhex(o['bytes'])), 'm': o['m'], 'copy': o['copy'],
                     'dem': o['dem'], 'dm': o.get('dm', 0), 're': list(bytes.fromhex(o.get('re', ''))),
                     'be': list(p[3]), 'beacc': b['acc'], 'bem': b['m'], 'bere': list(bytes.fromhex(b.get('re', '')))})
        meta.append(p[0])
    for i, err in crashes + bcrashes:
        import re
        m = re.search(r'(assertion failed "[^"]*"|SUMMARY: \S+ \S+|runtime error: [^\n]*)', err)
        violations.append({'signature': 'crash:' + (m.group(1) if m else 'abort'), 'program': progs[i][0][:600], 'stderr': err[-2000:]})
    bad = vlib.check_cases(recs, shard=250)
    for i in bad:
        violations.append({'signature': 'build:' + meta[i][:100], 'program': meta[i], 'bytes': bytes(recs[i]['bytes']).hex(),
                           'be': bytes(recs[i]['be']).hex(), 'what': 'serialised form / read-back / copy / other byte order differ from the program'})
    mc = vlib.model_check('SyntaxSelf.tla', 'SyntaxSelf.cfg', timeout=120, workers=1)
    cov = {'states': mc['states'], 'transitions': mc['transitions'], 'traces_validated_against_impl': len(recs) - len(bad),
           'samples': meta[:2] + meta[-2:], 'evaluations': len(recs), 'distinct_nontrivial': len(set(meta)), 'rule': RULE,
           'exhaustive': False, 'programs': len(recs),
           'explanation': 'TLC decodes (Wire.tla) the bytes libdbus produced for each program and compares with the program itself, with '
                          'the read-back, the re-serialisation, the copy, and the reading by the library of the other-endian encoding'}
    return {'level': 'model_checking', 'coverage': cov, 'violations': violations,
            'assumptions': ['TLC and the CommunityModules JSON reader are correct', 'wirecase.c interprets the program text faithfully',
                            'the own encoder of the generator (harness/py/dbuswire.py) is checked by Wire.tla on every case (c.be)']}


def replay(ctx, path):
    import json
    return {'coverage': {}, 'violations': [json.load(open(path))]}

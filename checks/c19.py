"""C19 auto-started services get the held messages once and in order, or every waiter gets one error."""
import busprop

RULE = ('python-random histories on a daemon with generated service files (two startable names, one whose program does not exist, one '
        'whose Exec line cannot be split): several clients send calls/signals with and without NO_AUTO_START and call '
        'StartServiceByName for the same and different names concurrently; the started process is a stub that only logs its start, the '
        'service side is played by driver connections that take the name at once, rounds later, never, or take another name; the driver '
        'makes the stub exit with status 0/1/3 or die by signal, lets the start timeout pass (service_start_timeout 500 ms), closes waiting '
        'senders, hits max_pending_service_starts=3; compared each round: every inbox (held messages exactly once, in arrival order; '
        'StartServiceByName replies 1/2; exactly one error per waiter), and the number of processes the daemon started per name (daemon '
        'log each round, stub start log at the end); distinct = distinct scenario texts')
ACT = [{'n': 'com.example.Act1', 'kind': 'ok'}, {'n': 'com.example.Act2', 'kind': 'ok'},
       {'n': 'com.example.NoExec', 'kind': 'noexec'}, {'n': 'com.example.BadQuote', 'kind': 'badquote'}]
NAMES = [a['n'] for a in ACT]
NOC = "type='signal',sender='org.freedesktop.DBus',interface='org.freedesktop.DBus',member='NameOwnerChanged'"


def gen(rng, i):
    cfg = {'act': ACT}
    timeouts = rng.random() < 0.35
    if timeouts:
        cfg['actTimeoutMs'] = 500
    if rng.random() < 0.2:
        cfg['maxPendingAct'] = 3
    clients = [1, 2, 3]
    players = [4, 5]
    rounds = []
    for s in clients + players:
        ops = [{'k': 'connect', 'uid': 0}, {'k': 'hello'}]
        if rng.random() < 0.5:
            ops.append({'k': 'addmatch', 'rule': NOC})
        if s in players and rng.random() < 0.3:
            ops.append({'k': 'addmatch', 'rule': "type='method_call'"})
        rounds.append({'ops': {str(s): ops}})
    ser = {s: 1000 for s in clients + players}
    owned = {}          # name -> player that (probably) owns it
    calls = []          # (caller slot, serial, name)
    hot = rng.sample(NAMES[:2], rng.choice([1, 2]))     # names this scenario concentrates on

    def target():
        r = rng.random()
        if r < 0.75:
            return rng.choice(hot)
        if r < 0.85:
            return rng.choice(NAMES[2:])
        return rng.choice(NAMES + ['com.example.NoSuchService'])

    def client_op(s):
        r = rng.random()
        n = target()
        if r < 0.45:
            ser[s] += 1
            calls.append((s, ser[s], n))
            return {'k': 'send', 'ty': 1, 'dst': n, 'path': '/svc', 'ifc': 'com.example.I', 'mem': rng.choice(['Ma', 'Mb']),
                    'sig': 'u', 'body': [ser[s]], 'ser': ser[s], 'fl': rng.choice([0, 0, 0, 1, 2])}
        if r < 0.6:
            ser[s] += 1
            return {'k': 'send', 'ty': 4, 'dst': n, 'path': '/svc', 'ifc': 'com.example.I', 'mem': 'Sig', 'sig': 's',
                    'body': ['s%d' % ser[s]], 'ser': ser[s], 'fl': rng.choice([0, 0, 2])}
        if r < 0.85:
            return {'k': 'startsvc', 'n': n, 'flags': 0, 'fl': rng.choice([0, 0, 0, 1])}
        if r < 0.9:
            return {'k': 'query', 'q': 'owner', 'n': n}
        if r < 0.95:
            return {'k': 'close'}
        return {'k': 'query', 'q': 'list'}

    def player_op(s):
        r = rng.random()
        if r < 0.5:
            n = rng.choice(hot) if rng.random() < 0.85 else rng.choice(NAMES + ['com.example.Other'])
            owned[n] = s
            return {'k': 'req', 'n': n, 'f': rng.choice([0, 0, 4, 1, 2, 6])}
        if r < 0.7 and owned:
            n = rng.choice(sorted(owned))
            owned.pop(n)
            return {'k': 'rel', 'n': n}
        if r < 0.9 and calls:
            c, cs, _n = calls.pop(rng.randrange(len(calls)))
            return {'k': 'send', 'ty': rng.choice([2, 2, 3]), 'dst': {'slot': c}, 'rs': cs, 'sig': 's', 'body': ['ok'],
                    'err': 'com.example.Err'}
        return {'k': 'query', 'q': 'queued', 'n': rng.choice(hot)}

    connected = set(clients + players)
    for _ in range(rng.choice([12, 16, 20])):
        ops = {}
        k = rng.choice([1, 1, 1, 2, 2, 3])
        for s in rng.sample(clients, min(k, len(clients))):
            if s not in connected:
                ops[str(s)] = [{'k': 'connect', 'uid': 0}, {'k': 'hello'}]
                connected.add(s)
                continue
            # (held messages are invisible until released, so TLC has to try every interleaving of concurrent writers:
            # keep concurrent bursts short)
            lst = [client_op(s) for _j in range(rng.choice([1, 1, 2, 3]) if k == 1 else (rng.choice([1, 1, 2]) if k == 2 else 1))]
            out = []
            for o in lst:
                out.append(o)
                if o['k'] == 'close':
                    connected.discard(s)
                    calls[:] = [c for c in calls if c[0] != s]
                    break
            ops[str(s)] = out
        r = rng.random()
        if r < 0.45:
            p = rng.choice(players)
            ops[str(p)] = [player_op(p) for _j in range(rng.choice([1, 1, 2]))]
        elif r < 0.65:
            ops['6'] = [{'k': 'svc_exit', 'n': rng.choice(hot), 'status': rng.choice([0, 1, 1, 3]), 'signaled': rng.random() < 0.15}]
        elif r < 0.75 and timeouts:
            ops.setdefault(str(rng.choice(players)), []).insert(0, {'k': 'sleep', 'ms': rng.choice([550, 700])})
        for key in ops:
            ops[key] = [o for o in ops[key] if not (o.get('k') == 'send' and o.get('ty') == 3 and False)]
        order = [int(x) for x in ops]
        rng.shuffle(order)
        rounds.append({'ops': ops, 'order': order})
    for r in rounds:
        for ops in r['ops'].values():
            for o in ops:
                if o.get('k') == 'send' and o.get('ty') != 3:
                    o.pop('err', None)
    # let every start still under way come to an end one way or the other
    rounds.append({'ops': {'6': [{'k': 'svc_exit', 'n': n, 'status': 1} for n in NAMES[:2]]}})
    return {'cfg': cfg, 'rounds': rounds}


HELPER_RULE = ('activation helper: python-random invocations of dbus-daemon-launch-helper-for-tests with 1-3 service directories: valid and '
               'invalid name arguments (22 malformed shapes incl. path traversal), service files with matching / mismatching / missing Name, '
               'missing Exec or User, duplicate keys and sections, localised keys, comments, CRLF, spacing around "=", eight kinds of unparsable '
               'file shadowing a good one in a later directory, and 42 Exec tails with odd quoting (quotes, backslashes, comments, escapes of the '
               'file syntax, unclosed quotes, trailing blanks); HelperOps.tla (service-file parser, command-line splitter, decision chain) must '
               'give the exit code, and for an executed program the exact argument vector recorded by the program itself')


def run(ctx):
    import random
    import helperdrv
    import vlib
    res = busprop.run(ctx, gen, 'C19.cfg', 40, 1200, RULE, mc_cfg_thorough='C19t.cfg')
    rng = random.Random(ctx.seed + 19)
    cases = helperdrv.run_cases(ctx.build, rng, 500 if ctx.quick else 20000)
    bad = vlib.check_cases(cases, shard=125 if ctx.quick else 1500)
    for i in bad:
        c = cases[i]
        res['violations'].append({'signature': 'helper:code=%s:ran=%s:name=%s' % (c['code'], c['ran'], bytes(c['name'])[:40].hex()),
                                  'case': c, 'what': 'exit code or executed argument vector of the launch helper differs from HelperOps.tla'})
    for c in cases:
        if c['code'] not in range(0, 12) and not any(v.get('case') is c for v in res['violations']):
            res['violations'].append({'signature': 'helper:crash:code=%s' % c['code'], 'case': c, 'what': 'the launch helper died: ' + c['_err'][-300:]})
    cov = res['coverage']
    cov['helper_cases'] = len(cases)
    cov['helper_cases_executed_program'] = sum(c['ran'] for c in cases)
    cov['helper_exit_codes_seen'] = sorted({c['code'] for c in cases})
    cov['evaluations'] += len(cases)
    cov['distinct_nontrivial'] += len({repr((c['name'], c['dirs'])) for c in cases})
    cov['rule'] += ' || ' + HELPER_RULE
    return res


def replay(ctx, path):
    import json
    import vlib
    v = json.load(open(path))
    if 'case' in v:
        bad = vlib.check_cases([v['case']], shard=10)
        return {'coverage': {'evaluations': 1}, 'violations': [v] if bad else []}
    return busprop.replay(ctx, path)

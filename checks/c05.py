"""C05 unicast messages reach exactly the current owner, once, in order."""
import busprop
import gen_bus

RULE = ('(every twelfth history is an on-demand-start history as in C19: held messages are unicast too) ' +
        'python-random histories over 3 connections and 2 names: bursts of numbered unicast calls / signals / replies to '
        'well-known and unique names and to absent names from 1-3 concurrent writers per round, interleaved with '
        'RequestName(REPLACE)/ReleaseName/close; all four types, NO_REPLY and NO_AUTO_START flags; TLC chooses the '
        'interleaving that explains each round; distinct = distinct scenario texts')
W = {'req': 2.5, 'rel': 1.5, 'query': 0.3, 'addmatch': 0.5, 'rmmatch': 0.2, 'signal': 0.5, 'call': 6, 'reply': 3,
     'usignal': 3, 'close': 0.5, 'driver_other': 0.4, 'nodest': 0.3}


NOC = "type='signal',sender='org.freedesktop.DBus',interface='org.freedesktop.DBus',member='NameOwnerChanged'"


def slow_recipient(rng):
    """a recipient that stops reading: the bus queues for it up to max_outgoing_bytes and then refuses (LimitsExceeded,
    no delivery, no reply expectation); what was queued arrives, in order, when it reads again -- or is answered with
    NoReply when it goes away"""
    cfg = {'maxOutgoing': rng.choice([2000, 20000])}
    if rng.random() < 0.4:
        cfg['replyTimeoutMs'] = 400
    rounds = [{'ops': {'1': [{'k': 'connect', 'uid': 0}, {'k': 'hello'}, {'k': 'addmatch', 'rule': NOC}]}},
              {'ops': {'2': [{'k': 'connect', 'uid': 0}, {'k': 'hello'}]}},
              {'ops': {'3': [{'k': 'connect', 'uid': 0}, {'k': 'hello'}, {'k': 'req', 'n': 'com.example.A', 'f': 0}]}}]
    ser = {1: 1000, 2: 1000}

    def big(s, dst, fl=0, ty=1):
        ser[s] += 1
        o = {'k': 'send', 'ty': ty, 'dst': dst, 'path': '/a', 'ifc': 'com.example.I', 'mem': 'Ma', 'sig': 'uay',
             'body': [ser[s], [ser[s] % 251] * rng.choice([30000, 50000])], 'ser': ser[s], 'fl': fl}
        return o

    def small(s, dst, fl=0, ty=1):
        ser[s] += 1
        return {'k': 'send', 'ty': ty, 'dst': dst, 'path': '/a', 'ifc': 'com.example.I', 'mem': 'Mb', 'sig': 'u', 'body': [ser[s]],
                'ser': ser[s], 'fl': fl}
    rounds.append({'ops': {'3': [{'k': 'stall'}]}})
    for _ in range(rng.choice([3, 4, 5])):
        ops = {}
        for s in rng.sample([1, 2], rng.choice([1, 1, 2])):
            dst = rng.choice(['com.example.A', {'slot': 3}])
            ops[str(s)] = [rng.choice([big, big, small])(s, dst, fl=rng.choice([0, 0, 0, 1]), ty=rng.choice([1, 1, 1, 4]))
                           for _j in range(rng.choice([1, 2, 3]))]
        rounds.append({'ops': ops})
    if cfg.get('replyTimeoutMs') and rng.random() < 0.6:
        rounds.append({'ops': {'1': [{'k': 'sleep', 'ms': 450}, {'k': 'query', 'q': 'list'}]}})
    end = rng.random()
    if end < 0.45:
        rounds.append({'ops': {'3': [{'k': 'aclose'}]}})
    else:
        rounds.append({'ops': {'3': [{'k': 'unstall'}]}})
        rounds.append({'ops': {'3': [small(1, {'slot': 1}, ty=4) | {'ser': 7001}]}})
    for _ in range(2):
        s = rng.choice([1, 2])
        rounds.append({'ops': {str(s): [small(s, rng.choice(['com.example.A', {'slot': 3}, {'slot': 3 - s}]))]}})
    return {'cfg': cfg, 'rounds': rounds}


def slow_eavesdropper(rng):
    """a third connection eavesdrops on everything and stops reading: its copies queue up to max_outgoing_bytes and then
    vanish silently -- the addressed recipient still gets every message exactly once and the caller no error"""
    cfg = {'maxOutgoing': rng.choice([2000, 20000])}
    rounds = [{'ops': {'1': [{'k': 'connect', 'uid': 0}, {'k': 'hello'}]}},
              {'ops': {'2': [{'k': 'connect', 'uid': 0}, {'k': 'hello'}, {'k': 'req', 'n': 'com.example.A', 'f': 0}]}},
              {'ops': {'3': [{'k': 'connect', 'uid': 0}, {'k': 'hello'}, {'k': 'addmatch', 'rule': rng.choice(["eavesdrop='true',interface='com.example.I'", "eavesdrop='true',type='method_call',interface='com.example.I'"])}]}},
              {'ops': {'3': [{'k': 'stall'}]}}]
    ser = 4000
    for _ in range(rng.choice([4, 6, 8])):
        ops = []
        for _j in range(rng.choice([1, 2, 3])):
            ser += 1
            ops.append({'k': 'send', 'ty': rng.choice([1, 1, 4]), 'dst': rng.choice(['com.example.A', {'slot': 2}]), 'path': '/a',
                        'ifc': 'com.example.I', 'mem': 'Ma', 'sig': 'uay', 'body': [ser, [ser % 251] * rng.choice([20000, 40000])],
                        'ser': ser, 'fl': rng.choice([0, 1])})
        rounds.append({'ops': {'1': ops}})
        if rng.random() < 0.4:
            rounds.append({'ops': {'2': [{'k': 'send', 'ty': 2, 'dst': {'slot': 1}, 'rs': ser, 'sig': 's', 'body': ['ok']}]}})
    rounds.append({'ops': {'3': [{'k': rng.choice(['unstall', 'unstall', 'aclose'])}]}})
    rounds.append({'ops': {'1': [{'k': 'query', 'q': 'list'}]}})
    return {'cfg': cfg, 'rounds': rounds}


def fire_and_forget(rng):
    """a sender that writes a burst (more than the bus reads at once), including things the bus answers, and closes at
    once without reading: everything it wrote is still dispatched, in order"""
    rounds = [{'ops': {'1': [{'k': 'connect', 'uid': 0}, {'k': 'hello'}, {'k': 'req', 'n': 'com.example.A', 'f': 0}]}},
              {'ops': {'2': [{'k': 'connect', 'uid': 0}, {'k': 'hello'}, {'k': 'addmatch', 'rule': NOC}]}}]
    for _ in range(rng.choice([2, 3])):
        rounds.append({'ops': {'3': [{'k': 'connect', 'uid': 0}, {'k': 'hello'}]}})
        ops = []
        n = rng.choice([12, 40, 120])
        pad = 'x' * rng.choice([8, 200, 600])
        for j in range(n):
            r = rng.random()
            if r < 0.1:
                ops.append({'k': 'query', 'q': rng.choice(['list', 'owner']), 'n': 'com.example.A'})
            elif r < 0.15:
                ops.append({'k': 'send', 'ty': 1, 'dst': 'com.example.Nobody', 'path': '/a', 'ifc': 'com.example.I', 'mem': 'Ma',
                            'sig': 'u', 'body': [j], 'ser': 2000 + j, 'fl': 2})
            else:
                ops.append({'k': 'send', 'ty': rng.choice([1, 4]), 'dst': rng.choice(['com.example.A', {'slot': 1}, {'slot': 2}]),
                            'path': '/a', 'ifc': 'com.example.I', 'mem': 'Mb', 'sig': 'us', 'body': [j, pad], 'ser': 2000 + j, 'fl': 1})
        ops.append({'k': 'aclose'})
        rounds.append({'ops': {'3': ops}})
        rounds.append({'ops': {'1': [{'k': 'query', 'q': 'list'}]}})
    return {'cfg': {}, 'rounds': rounds}


def gen(rng, i):
    if i % 12 == 4:
        # messages held while their destination is being started are unicast too: once, in order, or an error each
        # (the on-demand histories of C19, validated here with the same specification)
        import c19
        return c19.gen(rng, i)
    if i % 6 == 1:
        return slow_eavesdropper(rng)
    if i % 6 == 5:
        return slow_recipient(rng)
    if i % 6 == 2:
        return fire_and_forget(rng)
    g = gen_bus.Gen(rng, nslots=3, nnames=2, w=W, eavesdrop=0.2 if i % 4 == 0 else 0.0)
    return g.scenario(nrounds=rng.choice([10, 14]), concurrency=0.55, burst=0.4)


def run(ctx):
    return busprop.run(ctx, gen, 'C05.cfg', 72, 1600, RULE)


def replay(ctx, path):
    return busprop.replay(ctx, path)

"""C05 unicast messages reach exactly the current owner, once, in order."""
import busprop
import gen_bus

RULE = ('python-random histories over 3 connections and 2 names: bursts of numbered unicast calls / signals / replies to '
        'well-known and unique names and to absent names from 1-3 concurrent writers per round, interleaved with '
        'RequestName(REPLACE)/ReleaseName/close; all four types, NO_REPLY and NO_AUTO_START flags; TLC chooses the '
        'interleaving that explains each round; distinct = distinct scenario texts')
W = {'req': 2.5, 'rel': 1.5, 'query': 0.3, 'addmatch': 0.5, 'rmmatch': 0.2, 'signal': 0.5, 'call': 6, 'reply': 3,
     'usignal': 3, 'close': 0.5, 'driver_other': 0.4, 'nodest': 0.3}


def gen(rng, i):
    g = gen_bus.Gen(rng, nslots=3, nnames=2, w=W, eavesdrop=0.2 if i % 4 == 0 else 0.0)
    return g.scenario(nrounds=rng.choice([10, 14]), concurrency=0.55, burst=0.4)


def run(ctx):
    return busprop.run(ctx, gen, 'C05.cfg', 72, 1600, RULE)


def replay(ctx, path):
    return busprop.replay(ctx, path)

"""C04 name ownership state machine."""
import busprop
import gen_names

RULE = ('python-random histories of RequestName (all 8 flag values + undefined bits) / ReleaseName / queries / close+reconnect '
        'by 3 connections on 2 names, 1-3 concurrent writers per round, odd and invalid names mixed in, each followed by the '
        'flag-revealing epilogue; distinct = distinct scenario texts')


def gen(rng, i):
    lim = 3 if i % 4 == 3 else None
    return gen_names.scenario(rng, nslots=3, nnames=2, nrounds=rng.choice([8, 12, 16]), limit=lim)


def run(ctx):
    return busprop.run(ctx, gen, 'C04.cfg', 64, 1600, RULE, mc_cfg_thorough='C04t.cfg')


def replay(ctx, path):
    return busprop.replay(ctx, path)

"""C07 broadcasts reach exactly the connections whose match rules match."""
import busprop
import gen_bus

RULE = ('python-random histories over 3 connections: AddMatch/RemoveMatch with rule texts from the grammar (every key, '
        'quoting forms, near-miss variants of held rules, invalid rules), broadcast and unicast signals and calls whose '
        'leading arguments are strings/paths/ints chosen to sit on the prefix/namespace boundaries (every fourth scenario: rules with up to three argument keys of mixed kinds), ownership changes '
        'and disconnects in between; distinct = distinct scenario texts')
W = {'req': 1.5, 'rel': 0.7, 'query': 0.3, 'addmatch': 4, 'rmmatch': 2.5, 'signal': 6, 'call': 1, 'reply': 0.5,
     'usignal': 1.5, 'close': 0.3, 'driver_other': 0.3, 'nodest': 0.1}


def gen(rng, i):
    g = gen_bus.Gen(rng, nslots=3, nnames=2, w=W, eavesdrop=0.15 if i % 3 == 0 else 0.0, odd_rules=0.12,
                    cfg={'maxMatch': 4} if i % 5 == 4 else None)
    if i % 4 == 1:
        g.argfocus = 0.6        # rules with several argument keys of mixed kinds, signals on their boundaries
    return g.scenario(nrounds=rng.choice([10, 14, 18]), concurrency=0.3, burst=0.25)


def run(ctx):
    return busprop.run(ctx, gen, 'C07.cfg', 72, 1600, RULE)


def replay(ctx, path):
    return busprop.replay(ctx, path)

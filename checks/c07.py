"""C07 broadcasts reach exactly the connections whose match rules match."""
import busprop
import gen_bus

RULE = ('python-random histories over 3 connections: AddMatch/RemoveMatch with rule texts from the grammar (every key, '
        'quoting forms, near-miss variants of held rules, invalid rules), broadcast and unicast signals and calls whose '
        'leading arguments are strings/paths/ints chosen to sit on the prefix/namespace boundaries (every fourth scenario: rules with up to three argument keys of mixed kinds; every twelfth: unique names one of which is a prefix of another, named in rules, with the shorter one leaving; every twelfth: a sender named by a well-known name that has queued owners who also send), ownership changes '
        'and disconnects in between; distinct = distinct scenario texts')
W = {'req': 1.5, 'rel': 0.7, 'query': 0.3, 'addmatch': 4, 'rmmatch': 2.5, 'signal': 6, 'call': 1, 'reply': 0.5,
     'usignal': 1.5, 'close': 0.3, 'driver_other': 0.3, 'nodest': 0.1}


def prefix_named(rng):
    """unique names of which one is a proper prefix of another (:1.1 and :1.12): rules that name the longer one as sender
    or destination must survive the departure of the shorter one (whose rules are what is discarded then), keep matching,
    and still be removable"""
    sig = {'k': 'send', 'ty': 4, 'path': '/a', 'ifc': 'com.example.I', 'mem': 'Ma', 'sig': 's', 'body': ['x']}
    rounds = [{'ops': {'1': [{'k': 'connect', 'uid': 0}, {'k': 'hello'}] + ([{'k': 'addmatch', 'rule': "type='signal',member='Zz'"}] if rng.random() < 0.8 else [])}},
              {'ops': {'2': [{'k': 'connect', 'uid': 0}, {'k': 'hello'}]}}]
    for _ in range(rng.choice([8, 9, 10])):
        rounds.append({'ops': {'3': [{'k': 'connect', 'uid': 0}, {'k': 'hello'}, {'k': 'close'}]}})
    rounds.append({'ops': {'3': [{'k': 'connect', 'uid': 0}, {'k': 'hello'}], '4': [{'k': 'connect', 'uid': 0}, {'k': 'hello'}]}})
    r3 = "type='signal',sender='{u3}'"
    r4 = rng.choice(["sender='{u4}'", "type='signal',sender='{u4}',member='Ma'"])
    rounds.append({'ops': {'2': [{'k': 'addmatch', 'rule': r3}, {'k': 'addmatch', 'rule': r4}]}})
    rounds.append({'ops': {'3': [dict(sig)], '4': [dict(sig)]}})
    rounds.append({'ops': {'1': [{'k': rng.choice(['close', 'aclose'])}]}})
    rounds.append({'ops': {'3': [dict(sig)], '4': [dict(sig)]}})
    rounds.append({'ops': {'2': [{'k': 'rmmatch', 'rule': rng.choice([r3, r4])}]}})
    rounds.append({'ops': {'3': [dict(sig)], '4': [dict(sig)]}})
    return {'cfg': {}, 'rounds': rounds}


def queued_sender(rng):
    """rules that name a sender (or an eavesdropped destination) by a WELL-KNOWN name mean its primary owner only: what the
    connections waiting in the queue for that name send does not match, before and after the ownership changes hands"""
    sig = lambda tag: {'k': 'send', 'ty': 4, 'path': '/a', 'ifc': 'com.example.I', 'mem': 'Ma', 'sig': 's', 'body': [tag]}
    n = 'com.example.A'
    rounds = [{'ops': {'1': [{'k': 'connect', 'uid': 0}, {'k': 'hello'}, {'k': 'addmatch', 'rule': "type='signal',sender='%s'" % n}] +
                              ([{'k': 'addmatch', 'rule': "sender='%s',member='Ma'" % n}] if rng.random() < 0.3 else [])}},
              {'ops': {'2': [{'k': 'connect', 'uid': 0}, {'k': 'hello'}, {'k': 'req', 'n': n, 'f': rng.choice([0, 1])}]}},
              {'ops': {'3': [{'k': 'connect', 'uid': 0}, {'k': 'hello'}, {'k': 'req', 'n': n, 'f': 0}]}},
              {'ops': {'4': [{'k': 'connect', 'uid': 0}, {'k': 'hello'}] + ([{'k': 'req', 'n': n, 'f': 0}] if rng.random() < 0.5 else [])}}]
    def everybody(tag):
        order = [2, 3, 4]
        rng.shuffle(order)
        for s in order:
            rounds.append({'ops': {str(s): [sig('%s%d' % (tag, s))]}})
    everybody('a')
    rounds.append({'ops': {'2': [{'k': rng.choice(['rel', 'close']), 'n': n}]}})
    everybody('b')
    rounds.append({'ops': {'2': [{'k': 'connect', 'uid': 0}, {'k': 'hello'}, {'k': 'req', 'n': n, 'f': 0}]}})
    everybody('c')
    rounds.append({'ops': {'1': [{'k': 'query', 'q': 'queued', 'n': n}]}})
    return {'cfg': {}, 'rounds': rounds}


def gen(rng, i):
    if i % 12 == 9:
        return prefix_named(rng)
    if i % 12 == 3:
        return queued_sender(rng)
    g = gen_bus.Gen(rng, nslots=3, nnames=2, w=W, eavesdrop=0.15 if i % 3 == 0 else 0.0, odd_rules=0.12,
                    cfg={'maxMatch': 4} if i % 5 == 4 else None)
    if i % 4 == 1:
        g.argfocus = 0.6        # rules with several argument keys of mixed kinds, signals on their boundaries
    return g.scenario(nrounds=rng.choice([10, 14, 18]), concurrency=0.3, burst=0.25)


def run(ctx):
    return busprop.run(ctx, gen, 'C07.cfg', 72, 1600, RULE)


def replay(ctx, path):
    return busprop.replay(ctx, path)

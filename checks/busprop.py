"""Common shape of the checks decided on Bus.tla: (1) TLC explores the closed model BusMC with the property's
config (invariants + action properties), (2) scenarios are executed against the real dbus-daemon built from
/repo's working tree and TLC validates every recorded trace against Bus.tla (BusTrace)."""
import json
import random
import vlib


def summarize(scn):
    """short human-readable form of a scenario for evidence samples"""
    out = []
    for r in scn['rounds'][:40]:
        out.append({s: [_opstr(o) for o in ops] for s, ops in r.get('ops', {}).items()})
    return {'cfg': scn.get('cfg'), 'rounds': out, 'n_rounds': len(scn['rounds'])}


def _opstr(o):
    k = o['k']
    if k == 'req':
        return 'RequestName(%s,%d)' % (o['n'], o['f'])
    if k == 'rel':
        return 'ReleaseName(%s)' % (o['n'],)
    if k == 'query':
        return '%s(%s)' % (o['q'], o.get('n', ''))
    if k in ('addmatch', 'rmmatch'):
        return '%s(%s)' % (k, o['rule'])
    if k == 'send':
        return 'send(ty=%s dst=%s %s.%s rs=%s fl=%s)' % (o.get('ty'), o.get('dst'), o.get('ifc'), o.get('mem'),
                                                       o.get('rs', 0), o.get('fl', 0))
    return k


def default_signature(rej):
    """signature of a rejection: op kinds of the round the specification could not explain"""
    tr = rej['trace']
    for x in tr:
        if x.get('e') == 'Crash':
            import re
            m = re.search(r'SUMMARY: (\S+: \S+ \S+)', ' '.join(x.get('report', [])))
            return 'daemon-crash:' + (m.group(1) if m else 'rc=%s' % x.get('rc'))
    ln = tr[rej['line'] - 1] if 0 < rej['line'] <= len(tr) else {}
    kinds = []
    for ops in ln.get('ops', []):
        for o in ops:
            if o['k'] not in ('ping', 'connect'):
                kinds.append(o['k'] + (':' + str(o.get('q')) if o['k'] == 'query' else ''))
    return 'round-ops=' + ','.join(sorted(set(kinds)))


def run(ctx, gen, mc_cfg, n_quick, n_thorough, rule, classify=None, mc_timeout=900, assumptions=None,
        trace_module='BusTrace.tla', trace_cfg='BusTrace.cfg', mc_module='BusMC.tla', chunk=8,
        mc_cfg_thorough=None):
    rng = random.Random(ctx.seed)
    n = n_quick if ctx.quick else n_thorough
    scns = [gen(rng, i) for i in range(n)]
    cfgname = mc_cfg if ctx.quick or not mc_cfg_thorough else mc_cfg_thorough
    mc = vlib.model_check(mc_module, cfgname, timeout=mc_timeout)
    violations = []
    if not mc['ok']:
        violations.append({'signature': 'model:' + mc['violated'], 'what': 'TLC found the specification itself violates '
                           + mc['violated'], 'tlc': mc['out'][-6000:]})
    res = vlib.run_bus_scenarios(ctx.build, scns, module=trace_module, cfg=trace_cfg, chunk=chunk)
    for rej in res['rejected']:
        sig = (classify or default_signature)(rej)
        violations.append({'signature': sig, 'scenario': rej['scn'], 'trace': rej['trace'], 'rejected_line': rej['line'],
                           'ops_applied_in_line': rej['opn'],
                           'what': 'trace of the real daemon is not a behaviour of Bus.tla (line %d)' % rej['line']})
    nontrivial = len({json.dumps(s, sort_keys=True) for s in scns})
    cov = {'states': mc['states'], 'transitions': mc['transitions'],
           'traces_validated_against_impl': res['validated'],
           'samples': [summarize(s) for s in scns[:2]],
           'evaluations': len(scns), 'distinct_nontrivial': nontrivial,
           'rule': rule, 'trace_lines': res['lines'], 'unconfirmed_rejections': res['unconfirmed'],
           'model_config': cfgname, 'exhaustive': False,
           'explanation': 'BFS of %s with %s (all invariants/action properties hold: %s); %d scenarios executed on the '
                          'daemon built from the working tree, every recorded round validated by TLC against Bus.tla'
                          % (mc_module, cfgname, mc['ok'], len(scns))}
    return {'level': 'model_checking', 'coverage': cov, 'violations': violations,
            'assumptions': assumptions or DEFAULT_ASSUMPTIONS}


DEFAULT_ASSUMPTIONS = [
    'TLC and the CommunityModules JSON reader are correct',
    'the python raw-socket driver records faithfully what it wrote and read (a recorder bug shows as a rejection)',
    'the daemon under test is the ASan+UBSan build of /repo working tree made by tools/build.sh',
    'conformance is sampled: scenarios are generated, not exhaustive; the closed model is explored exhaustively only for its small constants']


def replay(ctx, path, trace_module='BusTrace.tla', trace_cfg='BusTrace.cfg'):
    v = json.load(open(path))
    res = vlib.run_bus_scenarios(ctx.build, [v['scenario']], module=trace_module, cfg=trace_cfg, chunk=1, jobs=1)
    violations = []
    for rej in res['rejected']:
        violations.append({'signature': v.get('signature'), 'scenario': rej['scn'], 'trace': rej['trace'],
                           'rejected_line': rej['line']})
    return {'coverage': {'traces_validated_against_impl': res['validated']}, 'violations': violations}

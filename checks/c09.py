"""C09 only the addressee of a pending call can answer it, once."""
import busprop
import gen_bus
import policygen

RULE = ('python-random histories under a system-bus-like policy (only requested replies pass, calls only to the example prefix): '
        'calls, genuine / duplicate / wrong-serial / third-party / late replies, serial reuse, NO_REPLY calls, callee and caller '
        'disconnects in the same round as the reply, per-connection pending-reply limit 2-3; every 3rd scenario runs with a '
        'finite reply_timeout and a train of keep-alive calls so that old slots must expire while newer ones are pending; '
        'distinct = distinct scenario texts')
W = {'req': 1.2, 'rel': 0.4, 'query': 0.2, 'addmatch': 0.3, 'rmmatch': 0.1, 'signal': 0.4, 'call': 6, 'reply': 6,
     'usignal': 0.5, 'close': 0.6, 'driver_other': 0.2, 'nodest': 0.1}
T = 300


def keepalive(g, rounds, total_ms):
    """unanswered calls between an unrelated pair every ~T/3 for total_ms"""
    a, b = g.slots[-1], g.slots[-2]
    n = int(total_ms / (T / 3.0))
    # the callee must be reachable under the policy: it owns a name below the allowed prefix
    rounds.append({'ops': {str(b): [{'k': 'req', 'n': 'com.example.Keep', 'f': 0}]}})
    for i in range(n):
        g.ser[a] += 1
        rounds.append({'ops': {str(a): [{'k': 'sleep', 'ms': T // 3},
                                         {'k': 'send', 'ty': 1, 'dst': 'com.example.Keep', 'path': '/k', 'ifc': 'com.example.I',
                                          'mem': 'Ma', 'ser': g.ser[a], 'sig': '', 'body': []}]}})


def gen(rng, i):
    timed = (i % 3 == 2)
    cfg = {'policy_ctxs': policygen.SYSTEM_LIKE, 'maxReplies': rng.choice([2, 3, 100000])}
    if timed:
        cfg['replyTimeoutMs'] = T
        cfg['maxReplies'] = 100000      # (a small limit would starve the keep-alive train)
    g = gen_bus.Gen(rng, nslots=4 if timed else 3, nnames=2, w=W, cfg=cfg, odd_rules=0.0)
    scn = g.scenario(nrounds=rng.choice([8, 12]) if timed else rng.choice([12, 16]), concurrency=0.45, burst=0.3)
    if timed:
        keepalive(g, scn['rounds'], 3 * T + 2300)
        # traffic again after the wait
        g2 = g.scenario.__self__
        for _ in range(3):
            s = rng.choice(g.slots)
            if s in g.connected:
                scn['rounds'].append({'ops': {str(s): [g.op(s) for _j in range(2)]}})
    return scn


def run(ctx):
    return busprop.run(ctx, gen, 'C09.cfg', 66, 900, RULE)


def replay(ctx, path):
    return busprop.replay(ctx, path)

"""C09 only the addressee of a pending call can answer it, once."""
import busprop
import gen_bus
import policygen

RULE = ('python-random histories under a system-bus-like policy (only requested replies pass, calls only to the example prefix): '
        'calls, genuine / duplicate / wrong-serial / third-party / late replies, serial reuse, NO_REPLY calls, callee and caller '
        'disconnects in the same round as the reply, per-connection pending-reply limit 2-3; every 3rd scenario runs with a '
        'finite reply_timeout and a train of keep-alive calls so that old slots must expire while newer ones are pending; '
        'every sixth scenario: one caller with the same serial outstanding towards two or three callees that answer in any order (plus duplicates), with small serials and serials whose top bit is set; every twelfth: a callee leaves while older calls between others are still pending; '
        'distinct = distinct scenario texts')
W = {'req': 1.2, 'rel': 0.4, 'query': 0.2, 'addmatch': 0.3, 'rmmatch': 0.1, 'signal': 0.4, 'call': 6, 'reply': 6,
     'usignal': 0.5, 'close': 0.6, 'driver_other': 0.2, 'nodest': 0.1}
T = 300


def keepalive(g, rounds, total_ms):
    """unanswered calls between an unrelated pair every ~T/3 for total_ms"""
    a, b = g.slots[-1], g.slots[-2]
    n = int(total_ms / (T / 3.0))
    # the callee must be reachable under the policy: it owns a name below the allowed prefix
    rounds.append({'ops': {str(b): [{'k': 'req', 'n': 'com.example.Keep', 'f': 0}]}})
    for i in range(n):
        g.ser[a] += 1
        rounds.append({'ops': {str(a): [{'k': 'sleep', 'ms': T // 3},
                                         {'k': 'send', 'ty': 1, 'dst': 'com.example.Keep', 'path': '/k', 'ifc': 'com.example.I',
                                          'mem': 'Ma', 'ser': g.ser[a], 'sig': '', 'body': []}]}})


def shared_serial(rng):
    """one caller has calls with the same serial outstanding towards different callees (only the pair caller/callee must
    be unique): every addressee's genuine reply passes exactly once, in whatever order they answer"""
    cfg = {'policy_ctxs': policygen.SYSTEM_LIKE, 'maxReplies': 100000}
    names = {2: 'com.example.A', 3: 'com.example.B', 4: 'com.example.A.Sub'}
    rounds = [{'ops': {'1': [{'k': 'connect', 'uid': 0}, {'k': 'hello'}]}}]
    for s, n in names.items():
        rounds.append({'ops': {str(s): [{'k': 'connect', 'uid': 0}, {'k': 'hello'}, {'k': 'req', 'n': n, 'f': 0}]}})
    callees = rng.sample([2, 3, 4], rng.choice([2, 3]))
    ser = rng.choice([7, 1001, 0x7fffffff, 0x80000001, 0xfffffff0])       # (serials are unsigned: the top bit means nothing)
    calls = [{'k': 'send', 'ty': 1, 'dst': names[c], 'path': '/a', 'ifc': 'com.example.I', 'mem': 'Ma', 'sig': 'u', 'body': [c],
              'ser': ser, 'fl': 0} for c in callees]
    if rng.random() < 0.5:
        rounds.append({'ops': {'1': calls}})
    else:
        for c in calls:
            rounds.append({'ops': {'1': [c]}})
    order = callees[:]
    rng.shuffle(order)
    for c in order:
        ops = [{'k': 'send', 'ty': rng.choice([2, 2, 3]), 'dst': {'slot': 1}, 'rs': ser, 'sig': 's', 'body': ['r%d' % c], 'err': 'com.example.Err'}]
        if rng.random() < 0.3:
            ops.append(dict(ops[0]))            # a duplicate: must be refused
        rounds.append({'ops': {str(c): ops}})
    # an unsolicited reply that names a serial nobody used, small or with the top bit set: refused like any other
    rounds.append({'ops': {str(rng.choice([2, 3, 4])): [{'k': 'send', 'ty': rng.choice([2, 3]), 'dst': {'slot': 1}, 'err': 'com.example.Err',
                                                         'rs': rng.choice([5, 0x80000005, 0xffffffff]), 'sig': 's', 'body': ['unasked']}]}})
    # anybody answering again, or a stranger answering, is refused
    rounds.append({'ops': {str(rng.choice([2, 3, 4])): [{'k': 'send', 'ty': 2, 'dst': {'slot': 1}, 'rs': ser, 'sig': 's', 'body': ['late']}]}})
    for r in rounds:
        for ops in r['ops'].values():
            for o in ops:
                if o.get('k') == 'send' and o.get('ty') != 3:
                    o.pop('err', None)
    return {'cfg': cfg, 'rounds': rounds}


def orphan_behind_older(rng):
    """a callee leaves while OLDER calls between other connections are still unanswered: its caller is told NoReply at
    once (exactly once), the older calls stay pending and can still be answered"""
    cfg = {'policy_ctxs': policygen.SYSTEM_LIKE, 'maxReplies': 100000}
    names = {2: 'com.example.A', 3: 'com.example.B', 4: 'com.example.A.Sub'}
    rounds = [{'ops': {'1': [{'k': 'connect', 'uid': 0}, {'k': 'hello'}]}}]
    for s, n in names.items():
        rounds.append({'ops': {str(s): [{'k': 'connect', 'uid': 0}, {'k': 'hello'}, {'k': 'req', 'n': n, 'f': 0}]}})
    call = lambda dst, ser: {'k': 'send', 'ty': 1, 'dst': dst, 'path': '/a', 'ifc': 'com.example.I', 'mem': 'Ma', 'sig': 'u', 'body': [ser], 'ser': ser, 'fl': 0}
    older = rng.sample([2, 3], rng.choice([1, 2]))
    for k, c in enumerate(older):
        rounds.append({'ops': {'1': [call(names[c], 7001 + k)]}})              # stay unanswered for now
    rounds.append({'ops': {str(rng.choice([2, 3])): [call(names[4], 7101)]}})  # somebody calls the one who will leave
    if rng.random() < 0.5:
        rounds.append({'ops': {'1': [call(names[4], 7102)]}})
    rounds.append({'ops': {'4': [{'k': rng.choice(['close', 'aclose'])}]}})
    rounds.append({'ops': {'1': [{'k': 'query', 'q': 'list'}]}})
    for k, c in enumerate(older):
        rounds.append({'ops': {str(c): [{'k': 'send', 'ty': 2, 'dst': {'slot': 1}, 'rs': 7001 + k, 'sig': 's', 'body': ['late but fine']}]}})
    rounds.append({'ops': {'1': [{'k': 'query', 'q': 'list'}]}})
    return {'cfg': cfg, 'rounds': rounds}


def gen(rng, i):
    if i % 6 == 3:
        return shared_serial(rng)
    if i % 12 == 7:
        return orphan_behind_older(rng)
    timed = (i % 3 == 2)
    cfg = {'policy_ctxs': policygen.SYSTEM_LIKE, 'maxReplies': rng.choice([2, 3, 100000])}
    if timed:
        cfg['replyTimeoutMs'] = T
        cfg['maxReplies'] = 100000      # (a small limit would starve the keep-alive train)
    g = gen_bus.Gen(rng, nslots=4 if timed else 3, nnames=2, w=W, cfg=cfg, odd_rules=0.0)
    scn = g.scenario(nrounds=rng.choice([8, 12]) if timed else rng.choice([12, 16]), concurrency=0.45, burst=0.3)
    if timed:
        keepalive(g, scn['rounds'], 3 * T + 2300)
        # traffic again after the wait
        g2 = g.scenario.__self__
        for _ in range(3):
            s = rng.choice(g.slots)
            if s in g.connected:
                scn['rounds'].append({'ops': {str(s): [g.op(s) for _j in range(2)]}})
    return scn


def run(ctx):
    return busprop.run(ctx, gen, 'C09.cfg', 66, 900, RULE)


def replay(ctx, path):
    return busprop.replay(ctx, path)

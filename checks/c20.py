"""C20 object-path handlers are chosen by exact path, then nearest fallback."""
import random
import subprocess
import json
import os
import vlib

PATHS = ['/', '/a', '/a/b', '/a/b/c', '/a/bb', '/ab', '/b', '/a/b/c/d']
RULE = ('random histories of register / register-fallback / unregister over a path universe with shared prefixes, adjacent siblings and the '
        'root, handlers that accept or decline, method calls to every path of the universe (inside, beside, below the registered ones) and child '
        'listings, executed on a real connection pair; TLC replays each history through ObjectTreeOps and compares the handlers invoked (order), '
        'the answering handler or the error name, registration results and children; non-trivial = distinct histories')


def history(rng, n):
    cmds, reg, nid = [], {}, 0
    for _ in range(n):
        r = rng.random()
        if r < 0.3:
            p = rng.choice(PATHS[:7])
            nid += 1
            fb = int(rng.random() < 0.5)
            cmds.append(('reg %s %d %d' % (p, nid, fb), {'k': 'reg', 'p': list(p.encode()), 'id': nid, 'fb': fb}))
            reg.setdefault(p, nid)
        elif r < 0.42 and reg:
            p = rng.choice(sorted(reg))
            del reg[p]
            cmds.append(('unreg %s' % p, {'k': 'unreg', 'p': list(p.encode())}))
        elif r < 0.9:
            p = rng.choice(PATHS)
            ids = [i for i in range(1, nid + 1) if rng.random() < 0.35]
            # some handlers unregister their own path from inside the callback (and then accept or decline as said)
            un = [i for i in range(1, nid + 1) if rng.random() < 0.12] if rng.random() < 0.35 else []
            cmds.append(('ocall %s %s %s' % (p, ','.join(map(str, ids)) or '-', ','.join(map(str, un)) or '-'),
                         {'k': 'ocall', 'p': list(p.encode()), 'H': ids, 'un': un}))
        else:
            p = rng.choice(PATHS[:5])
            cmds.append(('children %s' % p, {'k': 'children', 'p': list(p.encode())}))
    # finally call every path with nobody accepting and with everybody accepting
    for p in PATHS:
        cmds.append(('ocall %s -' % p, {'k': 'ocall', 'p': list(p.encode()), 'H': []}))
        allids = list(range(1, nid + 1))
        cmds.append(('ocall %s %s' % (p, ','.join(map(str, allids)) or '-'), {'k': 'ocall', 'p': list(p.encode()), 'H': allids}))
    return cmds


def run_script(build, lines, timeout=120):
    env = dict(os.environ)
    env['ASAN_OPTIONS'] = 'detect_leaks=0'
    env['DBUS_FATAL_WARNINGS'] = '0'
    p = subprocess.run([vlib.harness_path(build, 'connpair')], input='\n'.join(lines) + '\n', stdout=subprocess.PIPE,
                       stderr=subprocess.PIPE, text=True, env=env, timeout=timeout)
    outs = [json.loads(x) for x in p.stdout.splitlines() if x.startswith('{')]
    times = [o['t'] for o in outs if set(o) == {'t'}]
    outs = [o for o in outs if set(o) != {'t'}]
    return outs, p.returncode, p.stderr, times


def run(ctx):
    rng = random.Random(ctx.seed)
    hs = [history(rng, rng.choice([6, 10, 16])) for _ in range(600 if ctx.quick else 6000)]
    from concurrent.futures import ThreadPoolExecutor
    recs, violations, texts = [], [], []

    def one(h):
        return run_script(ctx.build, [c[0] for c in h])
    with ThreadPoolExecutor(max_workers=12) as ex:
        results = list(ex.map(one, hs))
    for h, (outs, rc, err, _times) in zip(hs, results):
        if len(outs) != len(h):
            violations.append({'signature': 'crash:connpair-objects', 'script': [c[0] for c in h], 'stderr': err[-2000:],
                               'what': 'the harness died or stalled in the middle of the history'})
            continue
        cmds = []
        for (line, c), o in zip(h, outs):
            d = dict(c)
            d.update(o)
            cmds.append(d)
        recs.append({'k': 'otree', 'cmds': cmds})
        texts.append([c[0] for c in h])
    bad = vlib.check_cases(recs, shard=100, devnames=('UnknownObjectNeverSent',))
    for i in bad:
        violations.append({'signature': 'otree:' + ';'.join(texts[i])[:120], 'script': texts[i], 'observed': recs[i]['cmds'],
                           'what': 'some outcome of the history differs from ObjectTreeOps'})
    mc = vlib.model_check('ObjectTree.tla', 'ObjectTree.cfg', timeout=300, workers=8)
    if not mc['ok']:
        violations.append({'signature': 'model:' + mc['violated']})
    cov = {'states': mc['states'], 'transitions': mc['transitions'], 'traces_validated_against_impl': len(recs) - len(bad),
           'samples': texts[:2], 'evaluations': len(recs), 'distinct_nontrivial': len({tuple(t) for t in texts}), 'rule': RULE, 'exhaustive': False,
           'explanation': 'ObjectTree.tla: BFS over all registration states of 6 paths x 2 ids x fallback flag, invariants over every possible call; '
                          'implementation histories replayed through the same operators'}
    return {'level': 'model_checking', 'coverage': cov, 'violations': violations,
            'assumptions': ['TLC and the CommunityModules JSON reader are correct', 'connpair.c reports handler invocations and replies faithfully',
                            'built-in Introspect / Peer replies are not exercised (calls use a private interface)']}


def replay(ctx, path):
    return {'coverage': {}, 'violations': [json.load(open(path))]}

"""C11 message framing is independent of how the byte stream is chunked."""
import random
import vlib
import gen_wire

RULE = ('streams of 1-4 valid messages of varied sizes and both byte orders, optionally followed by an invalid message and junk; fed to a real '
        'DBusMessageLoader in every single cut point, every pair of cut points for short streams, one byte at a time, and random chunkings; after '
        'each feed the popped messages and the corrupt flag must equal Frame(prefix) of Wire.tla; non-trivial = distinct (stream, chunking) pairs')


def streams(rng, n):
    out = []
    for _ in range(n):
        k = rng.choice([1, 2, 2, 3, 4])
        ms = []
        for i in range(k):
            m = bytearray(gen_wire.rand_message(rng, maxargs=2))
            while len(m) > 160:
                m = bytearray(gen_wire.rand_message(rng, maxargs=1))
            # distinct serials so that the order is visible
            import struct
            struct.pack_into('<I' if m[0:1] == b'l' else '>I', m, 8, i + 1)
            ms.append(bytes(m))
        s = b''.join(ms)
        r = rng.random()
        if r < 0.35:
            sites = []
            bad = gen_wire.rand_message(rng, sites)
            cs = gen_wire.corruptions(rng, bad, sites)
            s += rng.choice(cs)[:200] + bytes(rng.randrange(256) for _ in range(rng.choice([0, 5, 40])))
        elif r < 0.45:
            s += bytes(rng.randrange(256) for _ in range(rng.choice([3, 16, 30])))
        out.append(s)
    return out


def chunkings(rng, s, quick):
    n = len(s)
    out = [[n], [1] * n]
    for c in range(1, n):
        out.append([c, n - c])
    if n <= (60 if quick else 120):
        for a in range(1, n):
            for b in range(a + 1, n, 1 if n < 40 else 3):
                out.append([a, b - a, n - b])
    for _ in range(10):
        left, ch = n, []
        while left > 0:
            k = min(left, rng.choice([1, 2, 3, 7, 8, 15, 16, 17, 33, 100]))
            ch.append(k)
            left -= k
        out.append(ch)
    return out


def run(ctx):
    rng = random.Random(ctx.seed)
    lines, recs = [], []
    for s in streams(rng, 14 if ctx.quick else 220):
        for ch in chunkings(rng, s, ctx.quick):
            lines.append(s.hex() + ' ' + ','.join(map(str, ch)))
            recs.append({'k': 'chunk', 'b': list(s), '_ch': ch})
    outs, crashes = vlib.run_harness(ctx.build, 'chunks', lines)
    violations, good = [], []
    for r, o in zip(recs, outs):
        if o is None:
            continue
        steps = [{'fed': st['fed'], 'out': [[x & 255, (x >> 8) & 255, (x >> 16) & 255, (x >> 24) & 255] for x in st['out']],
                  'corrupt': st['corrupt']} for st in o['steps']]
        good.append({'k': 'chunk', 'b': r['b'], 'steps': steps, '_ch': r['_ch']})
    for i, err in crashes:
        violations.append({'signature': 'crash:chunks', 'line': lines[i][:400], 'stderr': err[-2000:]})
    bad = vlib.check_cases([{k: v for k, v in g.items() if k != '_ch'} for g in good], shard=300, devnames=('LenientUniqueName',))
    for i in bad:
        g = good[i]
        violations.append({'signature': 'chunks:%s:%s' % (bytes(g['b'])[:24].hex(), ','.join(map(str, g['_ch'][:6]))), 'stream': bytes(g['b']).hex(),
                           'chunks': g['_ch'], 'steps': g['steps'], 'what': 'loader output after some feed differs from Frame(prefix)'})
    mc = vlib.model_check('Loader.tla', 'Loader.cfg', timeout=300, workers=4)
    if not mc['ok']:
        violations.append({'signature': 'model:' + mc['violated'], 'what': 'Loader.tla violates ' + mc['violated']})
    cov = {'states': mc['states'], 'transitions': mc['transitions'], 'traces_validated_against_impl': len(good) - len(bad),
           'samples': [{'stream': bytes(g['b']).hex(), 'chunks': g['_ch'], 'steps': g['steps']} for g in good[:2]],
           'evaluations': len(good), 'distinct_nontrivial': len({(bytes(g['b']), tuple(g['_ch'])) for g in good}), 'rule': RULE, 'exhaustive': False,
           'explanation': 'Loader.tla: TLC explores all chunkings of abstract streams (PrefixDetermined, NoOutputAfterCorruption); '
                          'implementation: real loader fed in chunks, each step compared with Wire.Frame of the prefix'}
    return {'level': 'model_checking', 'coverage': cov, 'violations': violations,
            'assumptions': ['TLC and the CommunityModules JSON reader are correct', 'wirecase.c feeds the loader exactly as instructed',
                            'the transport layer above the loader (socket reads) is exercised by the bus checks, not here']}


def replay(ctx, path):
    import json
    return {'coverage': {}, 'violations': [json.load(open(path))]}

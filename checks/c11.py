"""C11 message framing is independent of how the byte stream is chunked."""
import random
import vlib
import gen_wire

RULE = ('streams of 1-4 valid messages of varied sizes and both byte orders, optionally followed by an invalid message and junk; fed to a real '
        'DBusMessageLoader in every single cut point, every pair of cut points for short streams, one byte at a time, and random chunkings; after '
        'each feed the popped messages and the corrupt flag must equal Frame(prefix) of Wire.tla; non-trivial = distinct (stream, chunking) pairs')


def streams(rng, n):
    out = []
    for _ in range(n):
        k = rng.choice([1, 2, 2, 3, 4])
        ms = []
        for i in range(k):
            m = bytearray(gen_wire.rand_message(rng, maxargs=2))
            while len(m) > 160:
                m = bytearray(gen_wire.rand_message(rng, maxargs=1))
            # distinct serials so that the order is visible
            import struct
            struct.pack_into('<I' if m[0:1] == b'l' else '>I', m, 8, i + 1)
            ms.append(bytes(m))
        s = b''.join(ms)
        r = rng.random()
        if r < 0.35:
            sites = []
            bad = gen_wire.rand_message(rng, sites)
            cs = gen_wire.corruptions(rng, bad, sites)
            s += rng.choice(cs)[:200] + bytes(rng.randrange(256) for _ in range(rng.choice([0, 5, 40])))
        elif r < 0.45:
            s += bytes(rng.randrange(256) for _ in range(rng.choice([3, 16, 30])))
        out.append(s)
    return out


def chunkings(rng, s, quick):
    n = len(s)
    out = [[n], [1] * n]
    for c in range(1, n):
        out.append([c, n - c])
    if n <= (60 if quick else 120):
        for a in range(1, n):
            for b in range(a + 1, n, 1 if n < 40 else 3):
                out.append([a, b - a, n - b])
    for _ in range(10):
        left, ch = n, []
        while left > 0:
            k = min(left, rng.choice([1, 2, 3, 7, 8, 15, 16, 17, 33, 100]))
            ch.append(k)
            left -= k
        out.append(ch)
    return out


def run(ctx):
    rng = random.Random(ctx.seed)
    lines, recs = [], []
    for s in streams(rng, 14 if ctx.quick else 220):
        for ch in chunkings(rng, s, ctx.quick):
            lines.append(s.hex() + ' ' + ','.join(map(str, ch)))
            recs.append({'k': 'chunk', 'b': list(s), '_ch': ch})
    outs, crashes = vlib.run_harness(ctx.build, 'chunks', lines)
    violations, good = [], []
    for r, o in zip(recs, outs):
        if o is None:
            continue
        steps = [{'fed': st['fed'], 'out': [[x & 255, (x >> 8) & 255, (x >> 16) & 255, (x >> 24) & 255] for x in st['out']],
                  'corrupt': st['corrupt']} for st in o['steps']]
        good.append({'k': 'chunk', 'b': r['b'], 'steps': steps, '_ch': r['_ch']})
    for i, err in crashes:
        violations.append({'signature': 'crash:chunks', 'line': lines[i][:400], 'stderr': err[-2000:]})
    bad = vlib.check_cases([{k: v for k, v in g.items() if k != '_ch'} for g in good], shard=300, devnames=('LenientUniqueName',))
    for i in bad:
        g = good[i]
        violations.append({'signature': 'chunks:%s:%s' % (bytes(g['b'])[:24].hex(), ','.join(map(str, g['_ch'][:6]))), 'stream': bytes(g['b']).hex(),
                           'chunks': g['_ch'], 'steps': g['steps'], 'what': 'loader output after some feed differs from Frame(prefix)'})
    # the same through the transport: a real connection on a real socket, libdbus as server (first chunk glued to BEGIN) and
    # as client
    import subprocess
    import os
    import json
    tcases = []
    for s in streams(rng, 40 if ctx.quick else 1200):
        n = len(s)
        cuts = [[n], [n // 2, n - n // 2] if n > 1 else [n]]
        for _ in range(3):
            left, ch = n, []
            while left > 0 and len(ch) < 12:
                k = min(left, rng.choice([1, 2, 7, 8, 15, 16, 17, 33, 100, 300]))
                ch.append(k)
                left -= k
            if left:
                ch.append(left)
            cuts.append(ch)
        for ch in cuts:
            tcases.append((rng.choice('scr'), s, ch))
    # long streams whose first chunk (glued to BEGIN on the server side) is larger than one read of the handshake: what
    # the authentication code read past BEGIN must stay IN FRONT of what the transport reads next
    for _ in range(6 if ctx.quick else 60):
        import struct
        ms = []
        for i in range(rng.choice([40, 60])):
            m = bytearray(gen_wire.rand_message(rng, maxargs=2))
            while len(m) > 200 or len(m) < 64:
                m = bytearray(gen_wire.rand_message(rng, maxargs=2))
            struct.pack_into('<I' if m[0:1] == b'l' else '>I', m, 8, i + 1)
            ms.append(bytes(m))
        s = b''.join(ms)
        n = len(s)
        for first in (n, 2041, 2042, 3000, rng.randrange(2043, n)):
            for m in 'sr':
                tcases.append((m, s, [first, n - first] if first < n else [n]))
    env = dict(os.environ, ASAN_OPTIONS='detect_leaks=0:abort_on_error=0', DBUS_FATAL_WARNINGS='0')

    def run_part(part):
        inp = ''.join('%s %s %s\n' % (m, b.hex() or '-', ','.join(map(str, ch)) or '0') for m, b, ch in part)
        try:
            p = subprocess.run([vlib.harness_path(ctx.build, 'connraw')], input=inp, stdout=subprocess.PIPE, stderr=subprocess.PIPE, env=env,
                               text=True, timeout=600)
            return [json.loads(x) for x in p.stdout.splitlines() if x.startswith('{')], p.returncode, p.stderr
        except subprocess.TimeoutExpired:
            return [], -99, 'timeout'
    from concurrent.futures import ThreadPoolExecutor
    parts = [tcases[i:i + 25] for i in range(0, len(tcases), 25)]
    with ThreadPoolExecutor(max_workers=10) as ex:
        pres = list(ex.map(run_part, parts))
    trecs, tmeta = [], []
    for part, (outs, rc, err) in zip(parts, pres):
        for (m, b, ch), o in zip(part, outs):
            trecs.append({'k': 'tchunk', 'b': list(b), 'disc': o['disc'],
                          'out': [[x & 255, (x >> 8) & 255, (x >> 16) & 255, (x >> 24) & 255] for x in o['out']]})
            tmeta.append((m, b, ch, o))
        if len(outs) < len(part):
            m, b, ch = part[len(outs)]
            violations.append({'signature': 'crash:connraw:rc=%s' % rc, 'mode': m, 'stream': b.hex(), 'chunks': ch, 'stderr': err[-2000:],
                               'what': 'the connection harness died or hung on this stream'})
    tbad = vlib.check_cases(trecs, shard=100, devnames=('LenientUniqueName',))
    for i in tbad:
        m, b, ch, o = tmeta[i]
        violations.append({'signature': 'tchunks:%s:%s:%s' % (m, b[:24].hex(), ','.join(map(str, ch[:6]))), 'mode': m, 'stream': b.hex(), 'chunks': ch,
                           'delivered': o, 'what': 'what a real connection dispatched (or whether it gave up) differs from Frame(stream)'})
    mc = vlib.model_check('Loader.tla', 'Loader.cfg', timeout=300, workers=4)
    if not mc['ok']:
        violations.append({'signature': 'model:' + mc['violated'], 'what': 'Loader.tla violates ' + mc['violated']})
    cov = {'states': mc['states'], 'transitions': mc['transitions'], 'traces_validated_against_impl': len(good) - len(bad) + len(trecs) - len(tbad),
           'transport_level_cases': len(trecs),
           'samples': [{'stream': bytes(g['b']).hex(), 'chunks': g['_ch'], 'steps': g['steps']} for g in good[:2]],
           'evaluations': len(good) + len(trecs), 'distinct_nontrivial': len({(bytes(g['b']), tuple(g['_ch'])) for g in good}) + len({(m, b, tuple(ch)) for m, b, ch, _o in tmeta}),
           'rule': RULE + ' || the same streams through a real DBusConnection on a socket (libdbus as server with the first chunk written together with the BEGIN line, and as client), unsplit, halved and in random chunkings of up to 13 pieces: dispatched serials and self-disconnection must equal Frame(stream)', 'exhaustive': False,
           'explanation': 'Loader.tla: TLC explores all chunkings of abstract streams (PrefixDetermined, NoOutputAfterCorruption); '
                          'implementation: real loader fed in chunks, each step compared with Wire.Frame of the prefix'}
    return {'level': 'model_checking', 'coverage': cov, 'violations': violations,
            'assumptions': ['TLC and the CommunityModules JSON reader are correct', 'wirecase.c feeds the loader exactly as instructed',
                            'connraw.c writes the chunks as instructed and lets the connection run 2 ms between chunks (chunks may still coalesce in one read, which the property allows)']}


def replay(ctx, path):
    import json
    return {'coverage': {}, 'violations': [json.load(open(path))]}

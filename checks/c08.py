"""C08 a peer counts as authenticated only after a valid SASL exchange."""
import os
import random
import shutil
import tempfile
import json
import vlib

RULE = ('random SASL conversations (1-9 commands) with the real dbus-daemon over raw sockets under every allowed-mechanism setting '
        '({EXTERNAL}, {EXTERNAL,COOKIE,ANONYMOUS}, {COOKIE}, {ANONYMOUS}) and two socket credentials (root, uid 1000): AUTH with each mechanism '
        '/ unknown / none, with and without initial response, identities same / other / empty / garbage, malformed hex, DATA, CANCEL, ERROR, BEGIN, '
        'NEGOTIATE_UNIX_FD, unknown and non-ASCII lines; cookie responses correct and wrong in 8 ways (one digit flipped, truncated to 1 or 39 '
        'digits, one digit too long, empty, other cookie, malformed); after BEGIN the connection must be usable exactly when the model says '
        'authenticated, under the identity the mechanism established; non-trivial = distinct conversations')
MECHSETS = [['EXTERNAL'], ['EXTERNAL', 'DBUS_COOKIE_SHA1', 'ANONYMOUS'], ['DBUS_COOKIE_SHA1'], ['ANONYMOUS'], ['EXTERNAL', 'DBUS_COOKIE_SHA1']]
WRONG = ['wrong-flip', 'wrong-trunc1', 'wrong-trunc39', 'wrong-long', 'wrong-empty', 'wrong-othercookie', 'wrong-upper', 'malformed']


def A(c, mech='', hx='none', who='empty'):
    return {'c': c, 'mech': mech, 'hex': hx, 'who': who, 'resp': 'wrong', 'respkind': '', 'cookie': 0}


def abandon_then_other(rng, allowed):
    """an exchange is carried to OK and then abandoned (CANCEL / ERROR); another mechanism follows: nothing of the first
    identity may survive"""
    first = rng.choice(['EXTERNAL', 'EXTERNAL', 'ANONYMOUS'])
    cmds = [A('auth', first, 'ok' if first == 'EXTERNAL' else rng.choice(['none', 'ok']), 'same' if first == 'EXTERNAL' else 'garbage')]
    cmds.append(A(rng.choice(['cancel', 'error', 'cancel'])))
    second = rng.choice(['ANONYMOUS', 'ANONYMOUS', 'EXTERNAL', 'OTHER'])
    cmds.append(A('auth', second, rng.choice(['none', 'ok']) if second != 'EXTERNAL' else rng.choice(['ok', 'none']),
                  rng.choice(['same', 'other', 'garbage']) if second == 'EXTERNAL' else 'garbage'))
    for c in cmds:
        if c['hex'] == 'none':
            c['who'] = 'empty'
    if rng.random() < 0.3:
        cmds.append(A('data', '', 'ok', 'same'))
    cmds.append(A('begin'))
    return cmds


def persistent_guesser(rng, allowed):
    """failed attempts interleaved with exchanges that succeed and are then abandoned: rejections keep adding up, the
    server hangs up after the sixth whatever happened in between"""
    def bad():
        r = rng.random()
        if r < 0.4:
            return A('auth', 'OTHER', 'none', 'empty')
        if r < 0.7:
            return A('auth', 'EXTERNAL', 'ok', rng.choice(['other', 'garbage']))
        return A('auth', 'EXTERNAL', 'bad', 'empty')
    cmds = []
    for _ in range(rng.randint(0, 5)):
        cmds.append(bad())
    for _ in range(rng.choice([1, 1, 2])):
        first = rng.choice(['EXTERNAL', 'EXTERNAL', 'ANONYMOUS'])
        cmds.append(A('auth', first, 'ok' if first == 'EXTERNAL' else 'none', 'same' if first == 'EXTERNAL' else 'empty'))
        cmds.append(A(rng.choice(['cancel', 'error'])))
        for _k in range(rng.randint(0, 3)):
            cmds.append(bad())
    for _ in range(rng.randint(2, 6)):
        cmds.append(bad())
    if rng.random() < 0.5:
        cmds.append(A('auth', 'EXTERNAL', 'ok', 'same'))
        cmds.append(A('begin'))
    return cmds


def conversation(rng, allowed):
    r0 = rng.random()
    if r0 < 0.12:
        return abandon_then_other(rng, allowed)
    if r0 < 0.2:
        return persistent_guesser(rng, allowed)
    cmds = []
    n = rng.choice([1, 2, 3, 4, 6, 9])
    in_cookie = False
    for _ in range(n):
        r = rng.random()
        if in_cookie and r < 0.75:
            kind = 'correct' if rng.random() < 0.45 else rng.choice(WRONG)
            cmds.append({'c': 'data', 'mech': '', 'hex': 'ok', 'who': 'same', 'resp': 'correct' if kind == 'correct' else ('malformed' if kind == 'malformed' else 'wrong'),
                         'respkind': kind, 'cookie': 1})
            in_cookie = False
            continue
        in_cookie = False
        if r < 0.45:
            mech = rng.choice(['EXTERNAL', 'EXTERNAL', 'DBUS_COOKIE_SHA1', 'DBUS_COOKIE_SHA1', 'ANONYMOUS', 'OTHER', ''])
            hx = rng.choice(['none', 'ok', 'ok', 'ok', 'bad']) if mech else 'none'
            who = rng.choice(['same', 'same', 'other', 'garbage', 'empty']) if hx == 'ok' else 'empty'
            if 'DBUS_COOKIE_SHA1' in allowed and rng.random() < 0.3:
                mech, hx, who = 'DBUS_COOKIE_SHA1', 'ok', 'same'        # reach the challenge often enough
            if hx == 'ok' and who == 'empty':
                hx = 'none'
            cmds.append({'c': 'auth', 'mech': mech, 'hex': hx, 'who': who if hx != 'none' else 'empty', 'resp': 'wrong', 'respkind': '', 'cookie': 0})
            if mech == 'DBUS_COOKIE_SHA1' and mech in allowed and hx == 'ok' and who == 'same':
                in_cookie = True
        elif r < 0.6:
            hx = rng.choice(['none', 'ok', 'ok', 'bad'])
            who = rng.choice(['same', 'other', 'garbage']) if hx == 'ok' else 'empty'
            cmds.append({'c': 'data', 'mech': '', 'hex': hx, 'who': who, 'resp': 'wrong', 'respkind': 'wrong-empty', 'cookie': 0})
        elif r < 0.7:
            cmds.append({'c': rng.choice(['cancel', 'error']), 'mech': '', 'hex': 'none', 'who': 'empty', 'resp': 'wrong', 'respkind': '', 'cookie': 0})
        elif r < 0.78:
            cmds.append({'c': 'fd', 'mech': '', 'hex': 'none', 'who': 'empty', 'resp': 'wrong', 'respkind': '', 'cookie': 0})
        elif r < 0.86:
            cmds.append({'c': rng.choice(['unknown', 'nonascii']), 'mech': '', 'hex': 'none', 'who': 'empty', 'resp': 'wrong', 'respkind': '', 'cookie': 0})
        else:
            cmds.append({'c': 'begin', 'mech': '', 'hex': 'none', 'who': 'empty', 'resp': 'wrong', 'respkind': '', 'cookie': 0})
            break
    if cmds[-1]['c'] != 'begin' and rng.random() < 0.7:
        cmds.append({'c': 'begin', 'mech': '', 'hex': 'none', 'who': 'empty', 'resp': 'wrong', 'respkind': '', 'cookie': 0})
    return cmds


def run(ctx):
    import daemon
    import authdrv
    rng = random.Random(ctx.seed)
    recs, violations, texts = [], [], []
    nconv = 1500 if ctx.quick else 12000
    per = nconv // len(MECHSETS)
    for allowed in MECHSETS:
        home = tempfile.mkdtemp(prefix='vhome-')
        os.environ['DBUS_TEST_HOMEDIR'] = home
        extra = '  <allow_anonymous/>\n' if 'ANONYMOUS' in allowed else ''
        d = daemon.Daemon(ctx.build, auth=tuple(allowed), extra=extra)
        try:
            for i in range(per):
                uid = rng.choice([0, 0, 1000])
                cmds = conversation(rng, allowed)
                obs = authdrv.converse(d.path, home, uid, cmds)
                recs.append({'k': 'auth', 'allowed': allowed, 'sockUid': uid, 'serverUid': 0, 'sockGids': [2, uid] if uid != 0 else [], 'cmds': obs})
                texts.append('%s uid=%d: ' % ('+'.join(allowed), uid) + ' ; '.join(
                    '%s%s%s' % (c['c'], (' ' + c['mech']) if c['mech'] else '', (' ' + (c['respkind'] or c['who'])) if c['hex'] != 'none' else '') for c in cmds))
        finally:
            res = d.stop()
            os.environ.pop('DBUS_TEST_HOMEDIR', None)
            shutil.rmtree(home, ignore_errors=True)
        if res['crashed']:
            violations.append({'signature': 'daemon-crash:auth', 'report': res['report'], 'what': 'the daemon died during handshakes'})
    bad = vlib.check_cases(recs, shard=100)
    for i in bad:
        violations.append({'signature': 'auth:' + texts[i][:140], 'conversation': texts[i], 'observed': recs[i]['cmds'],
                           'what': 'a server answer or the outcome after BEGIN differs from AuthOps'})
    mc = vlib.model_check('Auth.tla', 'Auth.cfg', timeout=300, workers=4)
    if not mc['ok']:
        violations.append({'signature': 'model:' + mc['violated']})
    cov = {'states': mc['states'], 'transitions': mc['transitions'], 'traces_validated_against_impl': len(recs) - len(bad),
           'samples': texts[:3], 'evaluations': len(recs), 'distinct_nontrivial': len(set(texts)), 'rule': RULE, 'exhaustive': False,
           'explanation': 'Auth.tla: BFS over all command sequences up to length 7 with invariants (authenticated only via a permitted completed '
                          'mechanism, identity is the mechanism identity, reject clears identity, failures bounded); recorded conversations with the '
                          'real daemon replayed through the same transition function'}
    return {'level': 'model_checking', 'coverage': cov, 'violations': violations,
            'assumptions': ['TLC and the CommunityModules JSON reader are correct', 'SHA-1 arithmetic is checked through python hashlib (a correct '
                            'response must be accepted, the 8 wrong ones refused)', 'the 16 KiB handshake buffer bound and chunked delivery are '
                            'exercised by the C10 check, not here', 'socket credentials: root and uid 1000 via seteuid around connect()']}


def replay(ctx, path):
    return {'coverage': {}, 'violations': [json.load(open(path))]}

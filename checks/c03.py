"""C03 the bus stamps the true sender; unique names are unique forever."""
import busprop
import gen_bus

RULE = ('python-random histories with connect / Hello / repeated Hello / traffic before Hello / close / reconnect and '
        'messages of all four types carrying a forged SENDER, unknown header fields 11..255 with variant payloads, and '
        'CONTAINER_INSTANCE, unicast and broadcast (receivers hold match rules, some eavesdrop); every tenth history reconnects until unique names have two digits and forges SENDER values near the writer\'s own name (proper prefixes = other connections\' names, extensions, the name itself); distinct = distinct texts')
W = {'req': 1, 'rel': 0.5, 'query': 0.5, 'addmatch': 1.5, 'rmmatch': 0.3, 'signal': 4, 'call': 3, 'reply': 2,
     'usignal': 2, 'close': 1.2, 'driver_other': 0.6, 'nodest': 0.8, 'hello': 0.6}


def near_own_name(rng):
    """after enough reconnects for two-digit unique names, clients forge SENDER values that are near their OWN unique name:
    proper prefixes of it (another connection's name, e.g. :1.1 for :1.12), extensions of it, and the name itself"""
    rounds = [{'ops': {'1': [{'k': 'connect', 'uid': 0}, {'k': 'hello'}, {'k': 'addmatch', 'rule': "type='signal'"}]}},
              {'ops': {'2': [{'k': 'connect', 'uid': 0}, {'k': 'hello'}]}}]
    for _ in range(rng.choice([9, 10, 11])):
        rounds.append({'ops': {'3': [{'k': 'connect', 'uid': 0}, {'k': 'hello'}, {'k': 'close'}]}})
    rounds.append({'ops': {'3': [{'k': 'connect', 'uid': 0}, {'k': 'hello'}], '4': [{'k': 'connect', 'uid': 0}, {'k': 'hello'}]}})
    forms = ['{own-1}', '{own-1}', '{own+0}', '{own+.1}', '{own+}']      # (all of them well-formed names)
    for _ in range(rng.choice([3, 4])):
        s = rng.choice(['3', '4'])
        ops = []
        for f in rng.sample(forms, 3):
            if rng.random() < 0.5:
                ops.append({'k': 'send', 'ty': 4, 'path': '/a', 'ifc': 'com.example.I', 'mem': 'Sig', 'sig': 's', 'body': [f], 'forge': {'sender': f}})
            else:
                ops.append({'k': 'send', 'ty': 1, 'dst': {'slot': rng.choice([1, 2])}, 'path': '/a', 'ifc': 'com.example.I', 'mem': 'Ma', 'sig': 's',
                            'body': [f], 'fl': 1, 'forge': {'sender': f}})
        rounds.append({'ops': {s: ops}})
    return {'cfg': {}, 'rounds': rounds}


def gen(rng, i):
    if i % 10 == 7:
        return near_own_name(rng)
    g = gen_bus.Gen(rng, nslots=4, nnames=2, w=W, forge=0.6, eavesdrop=0.3 if i % 2 == 0 else 0.0)
    return g.scenario(nrounds=rng.choice([10, 14]), concurrency=0.3, burst=0.2, late_hello=0.3)


OOM_RULE = ('unique names under allocation failure: in the in-process bus a Hello is made to fail at every allocation index (quick: 24 evenly '
            'spaced), then ANOTHER client says Hello, then the first retries: the names handed out must all be fresh (Bus.tla with OomAbort and the '
            'known half-done-Hello deviation, in which a name once assigned stays used)')


def oom_hello(ctx, violations):
    """returns (runs, validated)"""
    import json
    import os
    import shutil
    import random
    import vlib
    import c14
    from concurrent.futures import ThreadPoolExecutor
    rng = random.Random(ctx.seed + 3)
    wd = vlib.scratch()
    try:
        conf = os.path.join(wd, 'oom.conf')
        open(conf, 'w').write(c14.CONF)
        jobs = []
        maxk = 24 if ctx.quick else 100000
        for _ in range(2 if ctx.quick else 12):
            h = ['1 -1 hello', '2 -1 hello'] + ['%d -1 req %s %d' % (rng.choice([1, 2]), rng.choice(c14.NAMES), rng.randrange(8)) for _j in range(rng.randint(0, 2))]
            out, rc, err = c14.run_script(ctx.build, conf, h + ['3 -1 hello'])
            if rc != 0 or not out.strip():
                violations.append({'signature': 'crash:busoom', 'script': h, 'stderr': err[-2000:]})
                continue
            last = json.loads(out.strip().splitlines()[-1])
            n = max((o.get('allocs', 0) for ops in last['ops'] for o in ops), default=0)
            ks = list(range(n)) if n <= maxk else sorted(set(int(i * (n - 1) / (maxk - 1)) for i in range(maxk)))
            for k in ks:
                jobs.append(h + ['3 %d hello' % k, 'dump', '4 -1 hello', 'dump', '3 -1 hello', 'dump'])
        with ThreadPoolExecutor(max_workers=12) as ex:
            results = list(ex.map(lambda j: c14.run_script(ctx.build, conf, j), jobs))
        ok = 0
        outs = []
        for j, (out, rc, err) in zip(jobs, results):
            if rc != 0 or not out.strip():
                violations.append({'signature': 'crash:busoom rc=%d' % rc, 'script': j, 'stderr': err[-2000:],
                                   'what': 'the in-process bus aborted under allocation failure in Hello'})
            else:
                outs.append((j, c14.bind_names(out)))
        path = os.path.join(wd, 'all.ndjson')
        open(path, 'w').write(''.join(o for _j, o in outs))
        if outs and vlib.validate_trace_lenient(path, os.path.join(wd, 't'), cfg='BusOom.cfg') is None:
            ok = len(outs)
        else:
            for j, o in outs:
                one = os.path.join(wd, 'one.ndjson')
                open(one, 'w').write(o)
                r = vlib.validate_trace_lenient(one, os.path.join(wd, 't1'), cfg='BusOom.cfg')
                if r is None:
                    ok += 1
                else:
                    violations.append({'signature': 'oomhello:' + j[-6], 'script': j, 'trace': o.splitlines(), 'rejected_line': r[0],
                                       'what': 'after a Hello that failed for lack of memory a unique name was handed out twice, or the run is otherwise no behaviour of Bus.tla'})
        return len(jobs), ok
    finally:
        shutil.rmtree(wd, ignore_errors=True)


def run(ctx):
    res = busprop.run(ctx, gen, 'C03.cfg', 72, 1600, RULE)
    n, ok = oom_hello(ctx, res['violations'])
    cov = res['coverage']
    cov['oom_hello_runs'] = n
    cov['traces_validated_against_impl'] += ok
    cov['evaluations'] += n
    cov['distinct_nontrivial'] += n
    cov['rule'] += ' || ' + OOM_RULE
    return res


def replay(ctx, path):
    return busprop.replay(ctx, path)

"""C03 the bus stamps the true sender; unique names are unique forever."""
import busprop
import gen_bus

RULE = ('python-random histories with connect / Hello / repeated Hello / traffic before Hello / close / reconnect and '
        'messages of all four types carrying a forged SENDER, unknown header fields 11..255 with variant payloads, and '
        'CONTAINER_INSTANCE, unicast and broadcast (receivers hold match rules, some eavesdrop); distinct = distinct texts')
W = {'req': 1, 'rel': 0.5, 'query': 0.5, 'addmatch': 1.5, 'rmmatch': 0.3, 'signal': 4, 'call': 3, 'reply': 2,
     'usignal': 2, 'close': 1.2, 'driver_other': 0.6, 'nodest': 0.8, 'hello': 0.6}


def gen(rng, i):
    g = gen_bus.Gen(rng, nslots=4, nnames=2, w=W, forge=0.6, eavesdrop=0.3 if i % 2 == 0 else 0.0)
    return g.scenario(nrounds=rng.choice([10, 14]), concurrency=0.3, burst=0.2, late_hello=0.3)


def run(ctx):
    return busprop.run(ctx, gen, 'C03.cfg', 72, 1600, RULE)


def replay(ctx, path):
    return busprop.replay(ctx, path)

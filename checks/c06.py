"""C06 security policy decisions equal the documented rule semantics."""
import busprop
import gen_bus
import policygen

RULE = ('random policy configurations (default / user / group / at_console / mandatory contexts in random file order, 0-4 random rules each over '
        'type, interface, member, path, error, destination, destination prefix, sender, broadcast, requested_reply, eavesdrop, own, own_prefix) '
        'with a mandatory tail that keeps the driver reachable (in 30% only Hello and Peer, so that the other driver methods are decided by the random rules, prefix rules on org.freedesktop... included); every third configuration has a name that can be started on demand and calls to it; three credentials (root, uid 1000, nobody); traffic: RequestName, unicast and '
        'broadcast messages of all four types with fields present or absent, replies requested and not, match rules incl. eavesdropping; the '
        'model applies PolicyOps.tla (last matching rule wins, default deny) to every send, every receive and every own; '
        'every fourth scenario is a focused one: a rule naming a bus name (as sender, destination or prefix) while two connections hold that '
        'name, one of them queued, and the primary releases half-way; every third history replaces the whole policy half-way through ReloadConfig; every sixth is a focused one on destination-prefix rules judged without a recipient connection (requests to the driver, calls that would start a service); distinct = distinct (configuration, history) texts')
W = {'req': 2, 'rel': 0.5, 'query': 0.3, 'addmatch': 0.8, 'rmmatch': 0.2, 'signal': 6, 'call': 5, 'reply': 3.5,
     'usignal': 2, 'close': 0.3, 'driver_other': 0.2, 'nodest': 0.1}


def queued_owners(rng):
    """rules that name a bus name apply to every connection in that name's queue, not only to the primary owner: two
    connections hold the name (one queued), a third party talks to both, then the primary releases"""
    R = policygen.rule
    N = rng.choice(['com.example.A', 'com.example.B'])
    base = [R('send', True), R('recv', True), R('own', True)]
    special = rng.choice([
        [R('recv', False, peer=N)],
        [R('send', False, peer=N)],
        [R('send', False, peer='com.example', prefix=True)],
        [R('recv', False, ty='signal'), R('recv', True, peer=N)],
        [R('send', False, ty='method_call'), R('send', True, peer=N)],
        [R('recv', False, peer=N, ty='method_call')],
        [R('send', False, peer=N, ifc='com.example.I')],
    ])
    ctxs = [['default', 0, base + special],
            ['mandatory', 0, [R('send', True, peer='org.freedesktop.DBus'), R('recv', True, peer='org.freedesktop.DBus')]]]
    cfg = {'policy_ctxs': ctxs, 'groups_of': policygen.GROUPS_OF}
    rounds = [{'ops': {str(s): [{'k': 'connect', 'uid': 0}, {'k': 'hello'}] +
                       ([{'k': 'addmatch', 'rule': "type='signal'"}] if s in (3, 4) else [])}} for s in (1, 2, 3, 4)]
    rounds.append({'ops': {'1': [{'k': 'req', 'n': N, 'f': rng.choice([0, 1])}]}})
    rounds.append({'ops': {'2': [{'k': 'req', 'n': N, 'f': 0}]}})          # queued behind 1
    ser = [3000]

    def talk(s):
        ops = []
        for _ in range(rng.choice([2, 3, 4])):
            ser[0] += 1
            r = rng.random()
            if r < 0.35:
                ops.append({'k': 'send', 'ty': 4, 'path': '/a', 'ifc': rng.choice(['com.example.I', 'com.example.J']), 'mem': 'Ma',
                            'sig': 'u', 'body': [ser[0]], 'ser': ser[0]})
            else:
                others = [x for x in (1, 2, 3, 4) if x != s]
                dst = rng.choice([{'slot': rng.choice(others)}, {'slot': rng.choice(others)}, N])
                ops.append({'k': 'send', 'ty': rng.choice([1, 1, 4]), 'dst': dst, 'path': '/a',
                            'ifc': rng.choice(['com.example.I', 'com.example.J']), 'mem': 'Mb', 'sig': 'u', 'body': [ser[0]],
                            'ser': ser[0], 'fl': rng.choice([0, 1])})
        return ops
    for phase in range(2):
        for s in rng.sample([1, 2, 3, 4], 4):
            rounds.append({'ops': {str(s): talk(s)}})
        if phase == 0:
            rounds.append({'ops': {'1': [{'k': 'rel', 'n': N}]}})            # 2 becomes primary, 1 holds nothing
    return {'cfg': cfg, 'rounds': rounds}


def prefix_without_recipient(rng):
    """send_destination_prefix rules judged WITHOUT a recipient connection: requests to the bus driver itself and calls that
    would start a service on demand; prefixes shorter than, equal to and longer than the destination"""
    R = policygen.rule
    pre = ['org', 'org.freedesktop', 'org.freedesktop.DBus', 'org.freedesktop.DBus.Private', 'com', 'com.example.A', 'com.example.A.Sub',
           'com.example.A.Sub.Deeper', 'com.example.B']
    rules = [R('send', True), R('recv', True), R('own', True)]
    for _ in range(rng.choice([1, 2, 3])):
        kw = {}
        if rng.random() < 0.3:
            kw['ty'] = 'method_call'
        rules.append(R('send', rng.random() < 0.35, peer=rng.choice(pre), prefix=True, **kw))
    ctxs = [['default', 0, rules],
            ['mandatory', 0, [R('send', True, ifc='org.freedesktop.DBus.Peer', peer='org.freedesktop.DBus'),
                              R('send', True, ifc='org.freedesktop.DBus', mem='Hello', peer='org.freedesktop.DBus'),
                              R('recv', True, peer='org.freedesktop.DBus')]]]
    cfg = {'policy_ctxs': ctxs, 'groups_of': policygen.GROUPS_OF, 'act': [{'n': 'com.example.A.Sub', 'kind': 'noexec'}]}
    rounds = [{'ops': {str(s): [{'k': 'connect', 'uid': rng.choice([0, 1000])}, {'k': 'hello'}]}} for s in (1, 2, 3)]
    rounds.append({'ops': {'2': [{'k': 'req', 'n': 'com.example.A', 'f': 0}], '3': [{'k': 'req', 'n': 'com.example.B', 'f': 0}]}})
    for _ in range(rng.choice([4, 6])):
        s = rng.choice([1, 2, 3])
        r = rng.random()
        if r < 0.45:
            op = {'k': 'query', 'q': rng.choice(['owner', 'has', 'queued', 'list']), 'n': rng.choice(['com.example.A', 'com.example.B'])}
        elif r < 0.55:
            op = {'k': 'addmatch', 'rule': "type='signal'"}
        elif r < 0.8:
            op = {'k': 'send', 'ty': 1, 'dst': 'com.example.A.Sub', 'path': '/a', 'ifc': 'com.example.I', 'mem': 'Ma', 'sig': '', 'body': [],
                  'fl': rng.choice([0, 0, 2])}
        else:
            op = {'k': 'send', 'ty': 1, 'dst': rng.choice(['com.example.A', 'com.example.B']), 'path': '/a', 'ifc': 'com.example.I', 'mem': 'Ma',
                  'sig': '', 'body': [], 'fl': 0}
        rounds.append({'ops': {str(s): [op]}})
    return {'cfg': cfg, 'rounds': rounds}


def gen(rng, i):
    if i % 4 == 3:
        return queued_owners(rng)
    if i % 6 == 4:
        return prefix_without_recipient(rng)
    cfg = {'policy_ctxs': policygen.random_ctxs(rng), 'groups_of': policygen.GROUPS_OF}
    if i % 3 == 2:
        # a name that can be started on demand (its program does not exist): a call to it is judged by the send rules
        # before anything is started, without a recipient connection
        cfg['act'] = [{'n': 'com.example.A.Sub', 'kind': 'noexec'}]
    g = gen_bus.Gen(rng, nslots=4, nnames=3, uids=(0, 1000, 65534), w=W, cfg=cfg, odd_rules=0.0, eavesdrop=0.2)
    scn = g.scenario(nrounds=rng.choice([10, 14]), concurrency=0.25, burst=0.35)
    # a cast for the destination / sender / own rules: everybody tries to own (or queue for) names and listens broadly
    cast = []
    for s in g.slots:
        ops = [{'k': 'req', 'n': rng.choice(g.names), 'f': rng.choice([0, 1, 4])} for _ in range(rng.choice([1, 2]))]
        ops.append({'k': 'addmatch', 'rule': rng.choice(["type='signal'", "", "type='signal',interface='com.example.I'"])})
        cast.append({'ops': {str(s): ops}})
    n0 = len(g.slots)
    scn['rounds'] = scn['rounds'][:n0] + cast + scn['rounds'][n0:]
    if cfg.get('act'):
        for s in rng.sample(g.slots, 2):
            at = rng.randrange(n0 + len(cast), len(scn['rounds']) + 1)
            scn['rounds'].insert(at, {'ops': {str(s): [{'k': 'send', 'ty': 1, 'dst': 'com.example.A.Sub', 'path': '/a', 'ifc': rng.choice(policygen.P_IFACES),
                                                        'mem': rng.choice(['Ma', 'Mb']), 'sig': '', 'body': [], 'fl': rng.choice([0, 0, 2])}]}})
    # every third history replaces the whole policy while the bus runs (ReloadConfig by whoever may call it)
    if i % 3 == 1:
        at = rng.randrange(n0 + len(cast), len(scn['rounds']) + 1)
        scn['rounds'].insert(at, {'ops': {str(rng.choice(g.slots)): [{'k': 'reload', 'cfg': {'policy_ctxs': policygen.random_ctxs(rng)}}]}})
    return scn


def run(ctx):
    return busprop.run(ctx, gen, 'C09.cfg', 72, 2400, RULE)


def replay(ctx, path):
    return busprop.replay(ctx, path)

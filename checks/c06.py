"""C06 security policy decisions equal the documented rule semantics."""
import busprop
import gen_bus
import policygen

RULE = ('random policy configurations (default / user / group / at_console / mandatory contexts in random file order, 0-4 random rules each over '
        'type, interface, member, path, error, destination, destination prefix, sender, broadcast, requested_reply, eavesdrop, own, own_prefix) '
        'with a fixed mandatory tail that keeps the driver reachable; three credentials (root, uid 1000, nobody); traffic: RequestName, unicast and '
        'broadcast messages of all four types with fields present or absent, replies requested and not, match rules incl. eavesdropping; the '
        'model applies PolicyOps.tla (last matching rule wins, default deny) to every send, every receive and every own; '
        'distinct = distinct (configuration, history) texts')
W = {'req': 2, 'rel': 0.5, 'query': 0.3, 'addmatch': 0.8, 'rmmatch': 0.2, 'signal': 6, 'call': 5, 'reply': 3.5,
     'usignal': 2, 'close': 0.3, 'driver_other': 0.2, 'nodest': 0.1}


def gen(rng, i):
    cfg = {'policy_ctxs': policygen.random_ctxs(rng), 'groups_of': policygen.GROUPS_OF}
    g = gen_bus.Gen(rng, nslots=4, nnames=3, uids=(0, 1000, 65534), w=W, cfg=cfg, odd_rules=0.0, eavesdrop=0.2)
    scn = g.scenario(nrounds=rng.choice([10, 14]), concurrency=0.25, burst=0.35)
    # a cast for the destination / sender / own rules: everybody tries to own (or queue for) names and listens broadly
    cast = []
    for s in g.slots:
        ops = [{'k': 'req', 'n': rng.choice(g.names), 'f': rng.choice([0, 1, 4])} for _ in range(rng.choice([1, 2]))]
        ops.append({'k': 'addmatch', 'rule': rng.choice(["type='signal'", "", "type='signal',interface='com.example.I'"])})
        cast.append({'ops': {str(s): ops}})
    n0 = len(g.slots)
    scn['rounds'] = scn['rounds'][:n0] + cast + scn['rounds'][n0:]
    return scn


def run(ctx):
    return busprop.run(ctx, gen, 'C09.cfg', 72, 2400, RULE)


def replay(ctx, path):
    return busprop.replay(ctx, path)

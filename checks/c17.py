"""C17 every call awaiting a reply completes exactly once."""
import random
import json
import vlib
from c20 import run_script

RULE = ('random single-threaded histories on a real connection pair: 1-4 outstanding calls with timeouts of 150/400 ms or the default, replies '
        'arriving in any order, duplicated, with a wrong serial, as errors or not at all, cancel and block at random moments, peer close at random '
        'moments; completion observed through the notify callback (counted), get_completed and steal_reply; timer expectations are one-sided and '
        'derived from the harness clock (ambiguous windows end the history); TLC replays each history through PendingCallOps; '
        'non-trivial = distinct histories')
TOUT = {1: 150, 2: 400, 3: -1}


def history(rng):
    """script lines with nominal timing; the model-side records are built after the run from the measured clock"""
    cmds = []
    tags = []
    ntag = 0
    closed = False
    answered = set()     # a genuine reply is on the way / was delivered: blocking on these returns at once
    preset = set()       # calls whose serial the application chose itself
    pool = [0x7fffffff, 0x80000000, 0x80000001, 0xc0000001, 0xfffffff0, 0x7ffffff0, 0xffffffff]
    for _ in range(rng.choice([5, 8, 12])):
        r = rng.random()
        live = [t for t in tags]
        if (r < 0.3 or not tags) and ntag < 6 and not closed:
            ntag += 1
            T = rng.choice([150, 400, -1, -1])
            cmds.append(['call', ntag, T, int(rng.random() < 0.7)])
            if rng.random() < 0.2:
                # a serial of the application's own choosing, around the sign bit and the top of the range
                cmds[-1].append(pool.pop(rng.randrange(len(pool))))
                preset.add(ntag)
            tags.append(ntag)
        elif r < 0.55 and live and not closed:
            cmds.append(['reply', rng.choice(live), rng.choice(['ret', 'ret', 'err', 'dup', 'bogus'])])
            if cmds[-1][2] == 'bogus' and cmds[-1][1] in preset:
                cmds[-1][2] = 'ret'          # ("serial + 1000" is not representable next to the top of the range)
            if cmds[-1][2] != 'bogus':
                answered.add(cmds[-1][1])
            if rng.random() < 0.25:          # a second reply right behind the first (same dispatch)
                t2 = rng.choice(live)
                cmds.append(['reply', t2, rng.choice(['ret', 'err', 'dup', 'bogus'])])
                if cmds[-1][2] == 'bogus' and t2 in preset:
                    cmds[-1][2] = 'err'
                if cmds[-1][2] != 'bogus':
                    answered.add(t2)
            # the harness's next command may or may not dispatch what is on the way: always settle it first, except
            # before a block (which is exactly the case "reply already on the way")
            rr = rng.random()
            if rr < 0.25 and not closed:
                cmds.append(['block', cmds[-1][1] if cmds[-1][2] != 'bogus' else rng.choice(sorted(answered) or [cmds[-1][1]])]) if answered else None
            elif rr < 0.5:
                # the reply is on the way, or already read into the incoming queue but not dispatched, when the caller
                # cancels (or merely looks): a cancelled call must stay silent when the queue is dispatched
                victim = cmds[-1][1]
                if rng.random() < 0.7:
                    cmds.append(['fetch'])
                cmds.append([rng.choice(['cancel', 'cancel', 'poll']), victim])
            cmds.append(['pump', 30])
        elif r < 0.63 and live:
            cmds.append(['cancel', rng.choice(live)])
        elif r < 0.72 and live:
            cmds.append(['pump', rng.choice([30, 30, 250, 600])])
        elif r < 0.8 and live:
            cmds.append(['steal', rng.choice(live)])
        elif r < 0.88 and live:
            cmds.append(['poll', rng.choice(live)])
        elif r < 0.94 and live and (closed or [t for t in live if t in answered]):
            cmds.append(['block', rng.choice(live if closed else [t for t in live if t in answered])])
            cmds.append(['pump', 30])
        elif not closed:
            cmds.append(['peerclose'])
            closed = True
    cmds.append(['pump', 40])
    for t in tags:
        cmds.append(['steal', t])
        cmds.append(['poll', t])
    return cmds


def to_lines(cmds):
    return [' '.join(str(x) for x in c) for c in cmds]


def build_record(cmds, outs, times):
    """merge script, harness output and clock into the records PReplay reads; returns None if the history has to be
    cut before anything interesting (never)"""
    recs = []
    born = {}      # tag -> (time the call was made, timeout ms or None)
    state = {}     # python-side shadow only to decide which blocks are predictable: tag -> 'pending'|'done'|'cancelled'
    inflight = []  # tags with a matching reply on the way
    connected = True
    prev_t = None
    for c, o, t in zip(cmds, outs, times):
        k = c[0]
        if k == 'call':
            born[c[1]] = (t, None if c[2] < 0 else c[2])
            state[c[1]] = 'pending'
            recs.append({'k': 'call', 'tag': c[1], 'T': c[2], 'nf': c[3], 'serial': o['serial'], 'seen': o['seen'],
                         'completed': o['completed'], 'notified': o['notified']})
        elif k == 'reply':
            recs.append({'k': 'reply', 'tag': c[1], 'kind': c[2], 'sent': o['sent']})
            if o['sent'] and c[2] != 'bogus' and connected:
                inflight.append(c[1])
        elif k == 'pump':
            start = prev_t
            fire = []
            for tag in inflight:
                if state.get(tag) == 'pending':
                    state[tag] = 'done'
            inflight = []
            for tag, (t0, T) in born.items():
                if T is None or state.get(tag) != 'pending':
                    continue
                el_end = t - t0
                el_start = start - t0
                if el_end >= T + 120:
                    fire.append(tag)
                    state[tag] = 'done'
                elif el_end >= T - 25:
                    return recs          # ambiguous window: stop the history here
            recs.append({'k': 'pump', 'fire': fire})
        elif k == 'cancel':
            # a timer may have been due without a pump in between: ambiguous
            tag = c[1]
            if state.get(tag) == 'pending':
                T = born[tag][1]
                if T is not None and t - born[tag][0] >= T - 25:
                    return recs
                state[tag] = 'cancelled'
            recs.append({'k': 'cancel', 'tag': tag, 'completed': o['completed'], 'notified': o['notified']})
        elif k == 'block':
            tag = c[1]
            if state.get(tag) == 'cancelled':
                return recs              # blocking on a cancelled call: not part of the modelled interface
            if state.get(tag) == 'pending':
                if tag in inflight:
                    inflight.remove(tag)
                state[tag] = 'done'
            recs.append({'k': 'block', 'tag': tag, 'completed': o['completed'], 'notified': o['notified']})
            # other timers may have run while blocked: re-check at the following pump
        elif k == 'fetch':
            recs.append({'k': 'fetch'})
        elif k in ('poll', 'steal'):
            tag = c[1]
            if state.get(tag) == 'pending':
                T = born[tag][1]
                if T is not None and t - born[tag][0] >= T - 25:
                    return recs
            d = {'k': k, 'tag': tag, 'completed': o['completed'], 'notified': o['notified']}
            if k == 'steal':
                d.update(reply=o['reply'], rs=o['rs'], tok=o['tok'])
            recs.append(d)
        elif k == 'peerclose':
            connected = False
            for tag in inflight:
                if state.get(tag) == 'pending':
                    state[tag] = 'done'
            inflight = []
            for tag in born:
                if state.get(tag) == 'pending':
                    # with the known defect it stays pending forever (timers are removed too): no timing ambiguity
                    born[tag] = (born[tag][0], None)
            recs.append({'k': 'peerclose'})
        prev_t = t
    return recs


THR_RULE = ('multi-threaded: 2-4 threads share one connection (after dbus_threads_init_default), each step every thread issues a call '
            'and waits for it by blocking, by notification or by polling, with or without a separate dispatching thread; a scripted raw peer '
            'answers the calls of a step in ONE write, in random order, after 0-120 ms, or leaves some unanswered (timeouts 300/600 ms), sometimes after an unrelated message that wakes the waiting threads early; answered calls use a 9 s or an infinite timeout; '
            'per call: completed exactly once, at most one notification, its own reply within 4 s of the peer writing it (timeout 9 s), '
            'or the local timeout error at its deadline; serials distinct and non-zero')


def thr_plan(rng):
    nt = rng.choice([2, 2, 3, 4])
    ns = rng.choice([2, 3, 4])
    # (a separate dispatching thread next to blocking threads stalls completions for seconds on the unchanged tree --
    # see DESIGN.md I.4 'observations' -- so the sample keeps to threads that wait for their own calls)
    disp = 0
    lines = ['T %d D %d S %d' % (nt, disp, ns)]
    for _ in range(ns):
        noise = int(rng.random() < 0.4)
        lines.append('P %d %d %d' % (rng.choice([0, 0, 5, 30, 120]) if not noise else rng.choice([30, 120, 400]), rng.randrange(1 << 30), noise))
        silent = rng.random() < 0.25
        if rng.random() < 0.1:
            # nobody is answered, one call has a long deadline and the others short ones: each deadline is the call's own,
            # whoever happens to be holding the connection's I/O path
            long_one = rng.randrange(nt)
            for t in range(nt):
                lines.append('C b %d 0' % (6000 if t == long_one else rng.choice([300, 600])))
            continue
        for t in range(nt):
            ans = 0 if (silent and rng.random() < 0.5) else 1
            # (without a main loop that runs DBusTimeouts only a blocking wait can time out: unanswered calls block)
            lines.append('C %s %d %d' % (rng.choice('bbbnp') if ans else 'b', rng.choice([9000, 9000, 2147483647]) if ans else rng.choice([300, 600]), ans))
    return lines


def run_thr(build, plan):
    import os
    import subprocess
    env = dict(os.environ, ASAN_OPTIONS='detect_leaks=0:abort_on_error=0', UBSAN_OPTIONS='print_stacktrace=1:halt_on_error=1')
    try:
        p = subprocess.run([vlib.harness_path(build, 'connthr')], input='\n'.join(plan) + '\n', stdout=subprocess.PIPE,
                           stderr=subprocess.PIPE, env=env, text=True, timeout=120)
    except subprocess.TimeoutExpired:
        return None, 'timeout: the harness did not finish within 120 s (a call never completed)'
    outs = [json.loads(x) for x in p.stdout.splitlines() if x.startswith('{')]
    if p.returncode != 0 or len(outs) != 1:
        return None, 'exit %s: %s' % (p.returncode, p.stderr[-1500:])
    return outs[0], ''


def run(ctx):
    rng = random.Random(ctx.seed)
    hs = [history(rng) for _ in range(160 if ctx.quick else 3000)]
    from concurrent.futures import ThreadPoolExecutor
    with ThreadPoolExecutor(max_workers=14) as ex:
        results = list(ex.map(lambda h: run_script(ctx.build, to_lines(h), timeout=180), hs))
    recs, violations, texts = [], [], []
    for h, (outs, rc, err, times) in zip(hs, results):
        if len(outs) != len(h) or len(times) != len(h):
            violations.append({'signature': 'crash:connpair-calls', 'script': to_lines(h), 'stderr': err[-2000:],
                               'what': 'the harness died or stalled in the middle of the history'})
            continue
        r = build_record(h, outs, times)
        if r:
            recs.append({'k': 'pcall', 'cmds': r})
            texts.append(to_lines(h)[:len(r)])
    # several threads on one connection
    plans = [thr_plan(rng) for _ in range(60 if ctx.quick else 2500)]
    with ThreadPoolExecutor(max_workers=8) as ex:
        tres = list(ex.map(lambda pl: run_thr(ctx.build, pl), plans))
    trecs, tplans = [], []
    for pl, (o, err) in zip(plans, tres):
        if o is None:
            violations.append({'signature': 'pthr:harness:' + err[:60], 'plan': pl, 'what': 'threaded harness: ' + err})
        else:
            trecs.append(o)
            tplans.append(pl)
    tbad = vlib.check_cases(trecs, shard=20)
    for i in tbad:
        late = [c for c in trecs[i]['calls'] if c['comp'] != 1 or c['kind'] != (2 if c['answered'] and c['wrote'] >= 0 else 3)
                or (c['answered'] and c['wrote'] >= 0 and c['done'] - c['wrote'] > 4000)]
        violations.append({'signature': 'pthr:' + ' '.join(tplans[i])[:100], 'plan': tplans[i], 'observed': trecs[i], 'offending_calls': late,
                           'what': 'a call on a connection shared by several threads did not complete exactly once, promptly, with its own reply'})
    bad = vlib.check_cases(recs, shard=60, devnames=('DisconnectLeavesPendingCallsIncomplete',))
    for i in bad:
        violations.append({'signature': 'pcall:' + ';'.join(texts[i])[:120], 'script': texts[i], 'observed': recs[i]['cmds'],
                           'what': 'some observation of the history differs from PendingCallOps'})
    mc = vlib.model_check('PendingCall.tla', 'PendingCall.cfg' if not ctx.quick else 'PendingCallQ.cfg', timeout=600, workers=8)
    if not mc['ok']:
        violations.append({'signature': 'model:' + mc['violated']})
    cov = {'states': mc['states'], 'transitions': mc['transitions'], 'traces_validated_against_impl': len(recs) - len(bad) + len(trecs) - len(tbad),
           'samples': texts[:2], 'evaluations': len(recs) + len(trecs), 'distinct_nontrivial': len({tuple(t) for t in texts}) + len({tuple(p) for p in tplans}),
           'rule': RULE + ' || ' + THR_RULE, 'exhaustive': False, 'threaded_scenarios': len(trecs),
           'explanation': 'PendingCall.tla: BFS over all interleavings of call / reply kinds / dispatch / timeout / cancel / close for 2-3 calls with '
                          'invariants (at most once, cancelled never notified, reply matches serial, serials distinct) and liveness under fairness; '
                          'implementation histories replayed through the same transition function'}
    return {'level': 'model_checking', 'coverage': cov, 'violations': violations,
            'assumptions': ['TLC and the CommunityModules JSON reader are correct', 'connpair.c reports completion state faithfully',
                            'multi-threaded use is sampled (thread schedules are whatever the OS produced; the bounded-time form of eventual completion uses a 4 s slack)',
                            'timer expectations are one-sided; histories are cut at ambiguous timing windows']}


def replay(ctx, path):
    return {'coverage': {}, 'violations': [json.load(open(path))]}

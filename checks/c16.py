"""C16 name, path, signature and UTF-8 checks accept exactly the specified grammars."""
import random
import vlib
import gen_syntax

RULE = ('exhaustive: every string of length <= 4 (quick) / 5 (thorough) over an 11-class alphabet for bus names, interface, member and error '
        'names, <= 5/6 over 8 classes for object paths, every signature of length <= 4/5 over 11 codes, all UTF-8 lead/continuation class '
        'tuples of length <= 3/4; plus single-site perturbations (NUL, 0x80, 0xbf, 0xc0, 0xff, lone lead) at every offset of ASCII runs of '
        'length 1..65, length limits 254..257, nesting towers 31/32/33; each string goes through the public function, the length-taking '
        'internal function and a message that carries it; non-trivial = distinct (grammar, string) pairs')


NAMECH = set(b'ABCDEFGHIJKLMNOPQRSTUVWXYZabcdefghijklmnopqrstuvwxyz0123456789_-')


def lenient_unique(b):
    """the acceptance set of the known defect F14: ':' followed by name characters and dots, no dot at the end,
    no two dots in a row -- but fewer than two elements, or an empty first element, are let through"""
    if not b or b[0] != 58 or len(b) > 255:
        return False
    t = bytes(b[1:])
    if t.endswith(b'.') or b'..' in t:
        return False
    return all(c in NAMECH or c == 46 for c in t)


def classify(r):
    if r['g'] in ('bus', 'busns') and lenient_unique(r['b']) and r['int'] == 1 and r['pub'] in (1, -1) and r['msg'] in (1, -1):
        return 'syntax:bus:lenient-unique-name'
    if r['g'] in ('sig', 'sig1') and r['int'] in (1, -1) and r['pub'] in (1, -1):
        t = bytes(r['b'])
        import re
        if t.count(b'a') > 32 and max(len(x) for x in re.findall(b'a+', t)) <= 32:
            return 'syntax:sig:array-nesting-over-32-through-structs'
    return 'syntax:%s:%s' % (r['g'], bytes(r['b'])[:40].hex())


def run(ctx):
    rng = random.Random(ctx.seed)
    cases = gen_syntax.cases(rng, ctx.quick)
    outs, crashes = vlib.run_harness(ctx.build, 'syntax', [c['_line'] for c in cases])
    recs = []
    violations = []
    for c, o in zip(cases, outs):
        if o is None:
            continue
        r = dict(c)
        r.pop('_line')
        r.update(o)
        recs.append(r)
    for i, err in crashes:
        violations.append({'signature': 'harness-crash:syntax', 'case': cases[i]['_line'][:200], 'stderr': err,
                           'what': 'the library crashed / sanitizer report on this input'})
    bad = vlib.check_cases(recs)
    for i in bad:
        r = recs[i]
        violations.append({'signature': classify(r), 'case': {k: r[k] for k in ('g', 'b', 'pub', 'int', 'msg')},
                           'what': 'verdict of the library differs from Syntax.tla'})
    mc = vlib.model_check('SyntaxSelf.tla', 'SyntaxSelf.cfg', timeout=120, workers=1)
    cov = {'states': mc['states'], 'transitions': mc['transitions'], 'traces_validated_against_impl': len(recs) - len(bad),
           'samples': [{k: r[k] for k in ('g', 'b', 'pub', 'int', 'msg')} for r in recs[:3] + recs[-2:]],
           'evaluations': len(recs), 'distinct_nontrivial': len({(r['g'], bytes(r['b'])) for r in recs}), 'rule': RULE,
           'exhaustive': True,
           'explanation': 'TLC evaluates Syntax.tla on every enumerated string and compares with three routes into libdbus'}
    return {'level': 'model_checking', 'coverage': cov, 'violations': violations,
            'assumptions': ['TLC and the CommunityModules JSON reader are correct',
                            'harness/c/wirecase.c reports the verdicts of the library faithfully',
                            'exhaustive only up to the stated lengths over the stated class alphabets']}


def replay(ctx, path):
    import json
    v = json.load(open(path))
    return {'coverage': {}, 'violations': [v]}

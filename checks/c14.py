"""C14 out-of-memory at any point leaves state unchanged (bus requests)."""
import json
import os
import random
import subprocess
import tempfile
import shutil
import vlib
from concurrent.futures import ThreadPoolExecutor

RULE = ('the bus in-process (BusContext on debug-pipe, libdbus clients in the same process) with allocation failure injected only while the bus '
        'handles the target request: for prior states reached by random histories of Hello / RequestName / ReleaseName / AddMatch (contended names, '
        'queued owners, rules present) and target requests Hello, RequestName (all decision-table rows), ReleaseName (primary and queued), AddMatch, '
        'RemoveMatch (held and not held), the same requests carrying NO_REPLY_EXPECTED, broadcast and unicast messages, a method reply routed between two peers (followed by a retry or by the replier leaving): every failing allocation index k (quick: up to 24 evenly spaced per target) '
        'followed by an internal-state dump (registry queues, rule counts, owned-service counts), a retry without fault, another dump, queue listings and the disconnection of the requester; TLC validates each run as a Bus.tla behaviour in '
        'which a faulted request is either the normal action or OomAbort; non-trivial = distinct (history, target, k)')
CONF = '''<!DOCTYPE busconfig PUBLIC "-//freedesktop//DTD D-Bus Bus Configuration 1.0//EN" "http://www.freedesktop.org/standards/dbus/1.0/busconfig.dtd">
<busconfig>
  <listen>debug-pipe:name=test-server</listen>
  <policy context="default">
    <allow send_destination="*" eavesdrop="true"/>
    <allow eavesdrop="true"/>
    <allow own="*"/>
    <allow user="*"/>
  </policy>
</busconfig>
'''
NAMES = ['com.example.A', 'com.example.B']
RULES = ["type='signal'", "type='signal',interface='com.example.I'", "arg0='x'", ""]


def hexs(s):
    return s.encode().hex() or '-'


def history(rng):
    h = ['1 -1 hello', '2 -1 hello', '3 -1 hello']
    held = {1: [], 2: [], 3: []}
    for _ in range(rng.randint(2, 7)):
        c = rng.choice([1, 2, 3])
        r = rng.random()
        if r < 0.55:
            h.append('%d -1 req %s %d' % (c, rng.choice(NAMES), rng.randrange(8)))
        elif r < 0.7:
            h.append('%d -1 rel %s' % (c, rng.choice(NAMES)))
        else:
            rule = rng.choice(RULES)
            held[c].append(rule)
            h.append('%d -1 addmatch %s' % (c, hexs(rule)))
    return h, held


def targets(rng, held):
    t = []
    c = rng.choice([1, 2, 3])
    t.append('%d K req %s %d' % (c, rng.choice(NAMES), rng.randrange(8)))
    t.append('%d K rel %s' % (rng.choice([1, 2, 3]), rng.choice(NAMES)))
    # (half of the time a rule the caller already holds: a failed addition must not disturb the older, identical one)
    t.append('%d K addmatch %s' % (c, hexs(rng.choice(held[c]) if held[c] and rng.random() < 0.5 else rng.choice(RULES))))
    c2 = rng.choice([1, 2, 3])
    t.append('%d K rmmatch %s' % (c2, hexs(rng.choice(held[c2] or RULES))))
    t.append('%d K sig com.example.I Ma %s' % (c, hexs(rng.choice(['x', 'y']))))
    t.append('%d K call %s Ma' % (c, rng.choice(NAMES)))
    t.append('4 K hello')
    # the same requests with NO_REPLY_EXPECTED: nobody is waiting for the answer, the roll-back must be the same
    t.append('%d K req! %s %d' % (c, rng.choice(NAMES), rng.randrange(8)))
    t.append('%d K addmatch! %s' % (c, hexs(rng.choice(RULES))))
    t.append('%d K rel! %s' % (rng.choice([1, 2, 3]), rng.choice(NAMES)))
    # three of them per prior state, in rotation (every kind of request comes up about equally often)
    targets.turn = getattr(targets, 'turn', 0) + 1
    k = (3 * targets.turn) % len(t)
    return [t[k], t[(k + 1) % len(t)], t[(k + 2) % len(t)]]


def run_script(build, conf, lines):
    env = dict(os.environ)
    env['ASAN_OPTIONS'] = 'detect_leaks=0:abort_on_error=0'
    env['DBUS_FATAL_WARNINGS'] = '0'
    try:
        p = subprocess.run([vlib.harness_path(build, 'busoom'), conf], input='\n'.join(lines) + '\n', stdout=subprocess.PIPE,
                           stderr=subprocess.PIPE, text=True, env=env, timeout=20)
    except subprocess.TimeoutExpired:
        return '', -99, 'HANG: the in-process bus did not finish within 20 s'
    return p.stdout, p.returncode, p.stderr


def bind_names(out):
    """a faulted Hello may leave the connection registered without telling it its name: take the name from the
    destination of whatever the bus sends that client later (used only by the known-defect deviation)"""
    lines = [json.loads(x) for x in out.splitlines() if x.strip()]
    for i, ln in enumerate(lines):
        if ln.get('e') != 'Round':
            continue
        for s, ops in enumerate(ln['ops']):
            for o in ops:
                if o.get('k') == 'hello':
                    o['got2'] = []
                    if o.get('oom'):
                        for later in lines[i + 1:]:
                            for m in later.get('obs', [[]] * 6)[s]:
                                if m['dst'] and m['dst'][0] == 58 and not o['got2']:
                                    o['got2'] = m['dst']
    return ''.join(json.dumps(x, separators=(',', ':')) + '\n' for x in lines)


def run(ctx):
    rng = random.Random(ctx.seed)
    targets.turn = ctx.seed          # (the rotation of request kinds starts somewhere else for every seed)
    wd = vlib.scratch()
    violations = []
    try:
        conf = os.path.join(wd, 'oom.conf')
        open(conf, 'w').write(CONF)
        jobs = []           # (script lines, description)
        nstates = 10 if ctx.quick else 120
        maxk = 24 if ctx.quick else 100000
        for _ in range(nstates):
            h, held = history(rng)
            for t in targets(rng, held):
                out, rc, err = run_script(ctx.build, conf, h + [t.replace(' K ', ' -1 ')])
                if rc != 0:
                    violations.append({'signature': 'crash:busoom', 'script': h + [t], 'stderr': err[-2000:]})
                    continue
                last = json.loads(out.strip().splitlines()[-1])
                n = max((o.get('allocs', 0) for ops in last['ops'] for o in ops), default=0)
                ks = list(range(n)) if n <= maxk else sorted(set(int(i * (n - 1) / (maxk - 1)) for i in range(maxk)))
                for k in ks:
                    retry = t.replace(' K ', ' -1 ')
                    # ... and finally the requester leaves: whatever the fault left behind must not trip the bus then
                    jobs.append((h + [t.replace(' K ', ' %d ' % k), 'dump', retry, 'dump'] + ['1 -1 list %s' % nm for nm in NAMES]
                                 + ['%s -1 drop' % t.split()[0], 'dump'], '%s | %s | k=%d' % (' ; '.join(h[3:]), t, k)))
            # a release by the primary owner (alone / with a queue behind it) and by a queued owner, whatever the random history
            # and target draw gave: the roll-back of a removed owner has its own code
            if _ % 3 == 0:
                for hq, tq in ((['1 -1 req com.example.A %d' % rng.randrange(8)], '1 K rel com.example.A'),
                               (['1 -1 req com.example.A %d' % rng.choice([0, 1]), '2 -1 req com.example.A %d' % rng.choice([0, 1]),
                                 '3 -1 req com.example.A 0'], '%d K rel com.example.A' % rng.choice([1, 1, 2])),
                               # the caller adds a rule it already holds: whatever fails, the older identical rule stays
                               (['1 -1 addmatch %s' % hexs(RULES[1])] * rng.choice([1, 2]), '1 K addmatch %s' % hexs(RULES[1])),
                               # a queued owner replaces a primary owner that allows it (owners change places, nothing is
                               # removed: the undo of the swap) -- behind one or two queue entries
                               (['1 -1 req com.example.A 1', '2 -1 req com.example.A 0', '3 -1 req com.example.A %d' % rng.choice([0, 1])],
                                '%d K req com.example.A %d' % (rng.choice([2, 3]), rng.choice([2, 3])))):
                    hh = h[:3] + hq
                    out, rc, err = run_script(ctx.build, conf, hh + [tq.replace(' K ', ' -1 ')])
                    if rc != 0 or not out.strip():
                        violations.append({'signature': 'crash:busoom', 'script': hh + [tq], 'stderr': err[-2000:]})
                        continue
                    last = json.loads(out.strip().splitlines()[-1])
                    n = max((o.get('allocs', 0) for ops in last['ops'] for o in ops), default=0)
                    ks = list(range(n)) if n <= maxk else sorted(set(int(i * (n - 1) / (maxk - 1)) for i in range(maxk)))
                    if ' addmatch ' in tq:
                        ks = list(range(n))          # (only one or two allocations lie inside the insertion itself)
                    for k in ks:
                        c = tq.split()[0]
                        jobs.append((hh + [tq.replace(' K ', ' %d ' % k), 'dump', tq.replace(' K ', ' -1 '), 'dump', '%s -1 req com.example.B 0' % c,
                                           'dump', '%s -1 drop' % c, 'dump', '%d -1 list com.example.A' % (1 if c != '1' else 2)],
                                     '%s | %s | k=%d' % (' ; '.join(hh[3:]), tq, k)))
            # a Hello that fails half-way, then ANOTHER client's Hello: whatever the first one got, the second name is fresh
            h3 = ['1 -1 hello', '2 -1 hello'] + [x for x in h[3:] if x.split()[0] in ('1', '2')][:3]
            t3 = '3 K hello'
            out, rc, err = run_script(ctx.build, conf, h3 + [t3.replace(' K ', ' -1 ')])
            if rc == 0 and out.strip():
                last = json.loads(out.strip().splitlines()[-1])
                n = max((o.get('allocs', 0) for ops in last['ops'] for o in ops), default=0)
                ks = list(range(n)) if n <= maxk else sorted(set(int(i * (n - 1) / (maxk - 1)) for i in range(maxk)))
                for k in ks:
                    jobs.append((h3 + [t3.replace(' K ', ' %d ' % k), 'dump', '4 -1 hello', 'dump', '3 -1 hello', 'dump'],
                                 '%s | %s | k=%d' % (' ; '.join(h3[2:]), t3 + ' then 4 hello', k)))
            # a reply routed between two peers: after the fault either the replier tries again (the reply must still be
            # awaited and go through) or leaves (the caller must be told NoReply)
            a, b = rng.sample([1, 2, 3], 2)
            h2 = h + ['%d -1 call @%d Ma' % (a, b)]
            t = '%d K reply %d' % (b, a)
            out, rc, err = run_script(ctx.build, conf, h2 + [t.replace(' K ', ' -1 ')])
            if rc != 0:
                violations.append({'signature': 'crash:busoom', 'script': h2 + [t], 'stderr': err[-2000:]})
                continue
            last = json.loads(out.strip().splitlines()[-1])
            n = max((o.get('allocs', 0) for ops in last['ops'] for o in ops), default=0)
            ks = list(range(n)) if n <= maxk else sorted(set(int(i * (n - 1) / (maxk - 1)) for i in range(maxk)))
            for k in ks:
                after = [t.replace(' K ', ' -1 ')] if k % 2 == 0 else ['%d -1 drop' % b]
                jobs.append((h2 + [t.replace(' K ', ' %d ' % k), 'dump'] + after + ['dump'], '%s | %s | k=%d' % (' ; '.join(h2[3:]), t, k)))

        def one(j):
            return run_script(ctx.build, conf, j[0])
        with ThreadPoolExecutor(max_workers=14) as ex:
            results = list(ex.map(one, jobs))
        chunk, chunks, metas = [], [], []
        for j, (out, rc, err) in zip(jobs, results):
            if rc != 0 or not out.strip():
                import re
                m = re.search(r'(assertion failed "[^"]*"|SUMMARY: \S+ \S+|runtime error: [^\n]*)', err)
                violations.append({'signature': 'crash:' + (m.group(1) if m else 'busoom rc=%d' % rc), 'script': j[0], 'stderr': err[-2500:],
                                   'what': 'the in-process bus aborted / sanitizer report under allocation failure'})
                continue
            chunk.append((bind_names(out), j))
            if len(chunk) >= 40:
                chunks.append(chunk)
                chunk = []
        if chunk:
            chunks.append(chunk)

        def validate(ci):
            path = os.path.join(wd, 'c%04d.ndjson' % ci)
            with open(path, 'w') as f:
                for out, _j in chunks[ci]:
                    f.write(out)
            bad = []
            rej = vlib.validate_trace_lenient(path, os.path.join(wd, 't%04d' % ci), cfg='BusOom.cfg')
            if rej is None:
                return bad
            # find the rejected run(s): validate each run of the chunk on its own
            for out, j in chunks[ci]:
                one_path = path + '.one'
                open(one_path, 'w').write(out)
                r = vlib.validate_trace_lenient(one_path, os.path.join(wd, 't%04d' % ci), cfg='BusOom.cfg')
                if r is not None:
                    bad.append((j, out, r))
            return bad
        nvalid = 0
        with ThreadPoolExecutor(max_workers=12) as ex:
            for ci, bad in enumerate(ex.map(validate, range(len(chunks)))):
                nvalid += len(chunks[ci]) - len(bad)
                for j, out, r in bad:
                    tgt = j[1].split(' | ')[1].split(' ')
                    violations.append({'signature': 'oom:%s:%s' % (tgt[2], ' '.join(tgt[3:])[:40]), 'script': j[0], 'desc': j[1], 'trace': out.splitlines(),
                                       'rejected_line': r[0], 'what': 'after an allocation failure the observable state / messages are not those of the request taking effect entirely or not at all'})
    finally:
        shutil.rmtree(wd, ignore_errors=True)
    mc = vlib.model_check('BusMC.tla', 'C04.cfg', timeout=600)
    cov = {'states': mc['states'], 'transitions': mc['transitions'], 'traces_validated_against_impl': nvalid,
           'samples': [j[1] for j in jobs[:3]], 'evaluations': len(jobs), 'distinct_nontrivial': len({j[1] for j in jobs}), 'rule': RULE,
           'exhaustive': False,
           'explanation': 'Bus.tla with OomAbort (the faulted request leaves every variable unchanged and only the caller hears NoMemory); every fault '
                          'index of every (prior state, request) pair is a separate run validated by TLC, followed by a dump of the internal registry, '
                          'a retry and queue listings'}
    return {'level': 'fault_enumeration', 'coverage': cov, 'violations': violations,
            'assumptions': ['TLC and the CommunityModules JSON reader are correct', 'harness/c/busoom.c reports faithfully; fault injection through '
                            '_dbus_set_fail_alloc_counter only while the bus main loop runs', 'leak freedom is NOT decided here (LeakSanitizer hangs in this '
                            'sandbox); library operations (message build/copy/edit, rule and config parsing) under OOM are not covered yet',
                            'flags of non-primary queue entries are only visible through later requests']}


def replay(ctx, path):
    return {'coverage': {}, 'violations': [json.load(open(path))]}

/* argdump <outfile> [args...] : write every argument (argv[0] included) as one line of hex to <outfile>.
 * The program the generated service files of the launch-helper cases name in their Exec line: what it records is
 * the argument vector the helper really executed. */
#include <stdio.h>
#include <string.h>

int
main (int argc, char **argv)
{
  FILE *f;
  int i;
  size_t j;

  if (argc < 2)
    return 3;
  f = fopen (argv[1], "w");
  if (f == NULL)
    return 3;
  for (i = 0; i < argc; i++)
    {
      for (j = 0; j < strlen (argv[i]); j++)
        fprintf (f, "%02x", (unsigned char) argv[i][j]);
      fprintf (f, "\n");
    }
  fclose (f);
  return 0;
}

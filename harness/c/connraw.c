/* connraw: a byte stream is written to a real DBusConnection through a real socket in a prescribed chunking; what the
 * connection delivers (serials of the dispatched messages, in order) and whether it ended up disconnected is printed.
 *
 * stdin, one case per line:   <mode s|c> <hex of the stream> <chunk sizes, comma separated; 0 = tiny pause without a cut>
 *   mode s: libdbus is the SERVER side; the raw peer authenticates as a client and the first chunk is glued to the
 *           "BEGIN\r\n" line, i.e. message bytes arrive in the same read as the end of the handshake
 *   mode c: libdbus is the CLIENT side; the raw peer plays the server and writes the stream after reading BEGIN
 *   mode r: like s, but the accepted connection is NOT attached to a main loop: the application drives it with
 *           dbus_connection_read_write_dispatch() (the blocking-iteration path of the transport)
 * stdout per case:  {"out":[serial,...],"disc":0|1 (the connection gave up by itself, before the peer closed),"n":<bytes written>} */
#include <dbus/dbus.h>
#include "test-utils.h"
#include <errno.h>
#include <poll.h>
#include <pthread.h>
#include <stdio.h>
#include <stdlib.h>
#include <string.h>
#include <sys/socket.h>
#include <sys/un.h>
#include <time.h>
#include <unistd.h>

static TestMainContext *ctx;
static DBusConnection *conn;           /* the connection under test */
static volatile int peer_done;
static unsigned got[4096];
static int ngot, disconnected;
static int manual;                     /* mode r: the connection under test is driven by hand */

static void
drive (void)
{
  test_main_context_iterate (ctx, FALSE);
  if (manual && conn)
    dbus_connection_read_write_dispatch (conn, 0);
}

static long
now_ms (void)
{
  struct timespec t;
  clock_gettime (CLOCK_MONOTONIC, &t);
  return t.tv_sec * 1000L + t.tv_nsec / 1000000;
}

static DBusHandlerResult
collect (DBusConnection *c, DBusMessage *m, void *d)
{
  (void) c; (void) d;
  if (dbus_message_is_signal (m, DBUS_INTERFACE_LOCAL, "Disconnected"))
    disconnected = 1;
  else if (ngot < 4096)
    got[ngot++] = dbus_message_get_serial (m);
  return DBUS_HANDLER_RESULT_HANDLED;
}

static void
new_conn (DBusServer *s, DBusConnection *c, void *d)
{
  (void) s; (void) d;
  conn = dbus_connection_ref (c);
  dbus_connection_set_allow_anonymous (c, TRUE);
  dbus_connection_add_filter (c, collect, NULL, NULL);
  if (!manual)
    test_connection_setup (ctx, c);
}

static void
spin (int ms)
{
  long t0 = now_ms ();
  do { drive (); usleep (200); } while (now_ms () - t0 < ms);
}

/* spin until nothing new has been delivered for `quiet` ms (or the connection went away) */
static void
settle (int quiet)
{
  int last = -1;
  long t0 = now_ms ();
  while (now_ms () - t0 < quiet)
    {
      drive ();
      if (ngot != last || (conn && dbus_connection_get_dispatch_status (conn) == DBUS_DISPATCH_DATA_REMAINS))
        { last = ngot; t0 = now_ms (); }
      usleep (200);
    }
}

static int
unhex (const char *h, unsigned char *out, int max)
{
  int n = 0;
  while (h[0] && h[1] && n < max)
    { unsigned v; sscanf (h, "%2x", &v); out[n++] = v; h += 2; }
  return n;
}

static int
readline_fd (int fd, char *buf, int max)
{
  int n = 0; char c;
  long t0 = now_ms ();
  while (n < max - 1 && now_ms () - t0 < 3000)
    {
      struct pollfd p = { fd, POLLIN, 0 };
      drive ();
      if (poll (&p, 1, 1) <= 0) continue;
      if (read (fd, &c, 1) != 1) return -1;
      if (c == '\n') break;
      if (c != '\r') buf[n++] = c;
    }
  buf[n] = 0;
  return n;
}

static void
write_all (int fd, const unsigned char *p, int n)
{
  while (n > 0)
    {
      ssize_t w = write (fd, p, n);
      if (w <= 0) { if (errno == EAGAIN) { spin (1); continue; } return; }
      p += w; n -= w;
    }
}

/* write stream in the prescribed chunks, letting the connection under test run between chunks */
static int
write_chunks (int fd, const unsigned char *pre, int npre, const unsigned char *b, int n, const char *chunks)
{
  int off = 0, first = 1, total = 0;
  unsigned char tmp[70000];
  while (off < n || first)
    {
      int k = (int) strtol (chunks, (char **) &chunks, 10);
      if (*chunks == ',') chunks++;
      if (k <= 0 || k > n - off) k = n - off;
      if (first)
        {
          memcpy (tmp, pre, npre); memcpy (tmp + npre, b + off, k);
          write_all (fd, tmp, npre + k);
          first = 0;
        }
      else
        write_all (fd, b + off, k);
      off += k; total += k;
      spin (2);                       /* the chunk is read (and possibly dispatched) before the next one arrives */
      if (!*chunks && off < n) chunks = "0";
    }
  return total;
}

static void *
peer (void *p_)
{
  int *q = p_; char c, ln[256]; int k;
  q[1] = accept (q[0], NULL, NULL);
  if (read (q[1], &c, 1) != 1) return NULL;
  for (;;)
    {
      k = 0;
      while (k < 255) { if (read (q[1], &c, 1) != 1) return NULL; if (c == '\n') break; if (c != '\r') ln[k++] = c; }
      ln[k] = 0;
      if (!strncmp (ln, "AUTH EXTERNAL", 13)) { if (write (q[1], "OK 0123456789abcdef0123456789abcdef\r\n", 37) < 0) return NULL; }
      else if (!strcmp (ln, "BEGIN")) { peer_done = 1; return NULL; }
      else if (write (q[1], "ERROR\r\n", 7) < 0) return NULL;
    }
}

int
main (void)
{
  static char line[300000];
  static unsigned char stream[70000];
  ctx = test_main_context_get ();
  while (fgets (line, sizeof line, stdin))
    {
      char mode, *hex, *chunks;
      int n, fd = -1, i, wrote = 0, disc_before = 0;
      DBusError e;
      size_t l = strlen (line);
      while (l && (line[l - 1] == '\n' || line[l - 1] == '\r')) line[--l] = 0;
      if (l < 3) continue;
      mode = line[0];
      hex = line + 2;
      chunks = strchr (hex, ' ');
      if (!chunks) continue;
      *chunks++ = 0;
      if (!strcmp (hex, "-")) hex = (char *) "";
      n = unhex (hex, stream, sizeof stream);
      ngot = 0; disconnected = 0; conn = NULL;
      dbus_error_init (&e);
      manual = mode == 'r';
      if (mode == 's' || mode == 'r')
        {
          DBusServer *server = dbus_server_listen ("unix:tmpdir=/tmp", &e);
          struct sockaddr_un sun;
          char *addr, *path, buf[256], auth[128], uidhex[64], uid[16];
          const char *p;
          if (!server) { fprintf (stderr, "listen: %s\n", e.message); return 2; }
          dbus_server_set_new_connection_function (server, new_conn, NULL, NULL);
          test_server_setup (ctx, server);
          addr = dbus_server_get_address (server);
          path = strstr (addr, "abstract=") ? strstr (addr, "abstract=") + 9 : strstr (addr, "path=") + 5;
          memset (&sun, 0, sizeof sun);
          sun.sun_family = AF_UNIX;
          if (strstr (addr, "abstract="))
            { size_t pl = strcspn (path, ","); memcpy (sun.sun_path + 1, path, pl); fd = socket (AF_UNIX, SOCK_STREAM, 0);
              if (connect (fd, (struct sockaddr *) &sun, sizeof (sa_family_t) + 1 + pl) < 0) { perror ("connect"); return 2; } }
          else
            { size_t pl = strcspn (path, ","); memcpy (sun.sun_path, path, pl); fd = socket (AF_UNIX, SOCK_STREAM, 0);
              if (connect (fd, (struct sockaddr *) &sun, sizeof sun) < 0) { perror ("connect"); return 2; } }
          snprintf (uid, sizeof uid, "%d", (int) getuid ());
          uidhex[0] = 0;
          for (p = uid; *p; p++) sprintf (uidhex + strlen (uidhex), "%02x", *p);
          snprintf (auth, sizeof auth, "%cAUTH EXTERNAL %s\r\n", 0, uidhex);
          write_all (fd, (unsigned char *) auth, 1 + strlen (auth + 1));
          if (readline_fd (fd, buf, sizeof buf) < 0 || strncmp (buf, "OK", 2)) { fprintf (stderr, "auth: %s\n", buf); return 2; }
          wrote = write_chunks (fd, (const unsigned char *) "BEGIN\r\n", 7, stream, n, chunks);
          settle (60);
          disc_before = disconnected || (conn && !dbus_connection_get_is_connected (conn));
          dbus_free (addr);
          close (fd);
          settle (30);
          if (conn) { if (!manual) test_connection_shutdown (ctx, conn); dbus_connection_close (conn); dbus_connection_unref (conn); }
          test_server_shutdown (ctx, server);
          dbus_server_disconnect (server);
          dbus_server_unref (server);
        }
      else
        {
          /* libdbus as client: listen ourselves, complete the server side of the handshake by hand */
          struct sockaddr_un sun;
          char addr[256], buf[256];
          int lfd = socket (AF_UNIX, SOCK_STREAM, 0);
          pthread_t th;
          memset (&sun, 0, sizeof sun);
          sun.sun_family = AF_UNIX;
          snprintf (sun.sun_path, sizeof sun.sun_path, "/tmp/connraw-%d.sock", (int) getpid ());
          unlink (sun.sun_path);
          if (bind (lfd, (struct sockaddr *) &sun, sizeof sun) < 0 || listen (lfd, 1) < 0) { perror ("bind"); return 2; }
          snprintf (addr, sizeof addr, "unix:path=%s", sun.sun_path);
          /* open_private blocks in the handshake, so the peer side of it runs in a thread */
          {
            int a[2];
            a[0] = lfd; a[1] = -1;
            long t0 = now_ms ();
            peer_done = 0;
            pthread_create (&th, NULL, peer, a);
            conn = dbus_connection_open_private (addr, &e);
            if (!conn) { fprintf (stderr, "open: %s\n", e.message); return 2; }
            dbus_connection_set_exit_on_disconnect (conn, FALSE);
            dbus_connection_add_filter (conn, collect, NULL, NULL);
            test_connection_setup (ctx, conn);
            /* the client side of the handshake runs from the main loop */
            while (!peer_done && now_ms () - t0 < 5000)
              { test_main_context_iterate (ctx, FALSE); usleep (200); }
            if (!peer_done) { fprintf (stderr, "handshake did not finish\n"); return 2; }
            pthread_join (th, NULL);
            fd = a[1];
          }
          unlink (sun.sun_path);
          close (lfd);
          (void) buf;
          wrote = write_chunks (fd, (const unsigned char *) "", 0, stream, n, chunks);
          settle (60);
          disc_before = disconnected || !dbus_connection_get_is_connected (conn);
          close (fd);
          settle (30);
          test_connection_shutdown (ctx, conn);
          dbus_connection_close (conn);
          dbus_connection_unref (conn);
        }
      printf ("{\"out\":[");
      for (i = 0; i < ngot; i++) printf (i ? ",%u" : "%u", got[i]);
      printf ("],\"disc\":%d,\"n\":%d}\n", disc_before, wrote);
      fflush (stdout);
    }
  return 0;
}

/* Service stub started by the bus (Exec line of the generated service files).  It never talks to the bus: it
 * logs that it was started and then waits for the driver to tell it how to end -- the service's part on the bus
 * is played by one of the driver's own connections, so the schedule stays under the driver's control.
 *   svcstub <ctl-dir> <name>
 * appends "<name> <pid>\n" to <ctl-dir>/starts.log; ends when <ctl-dir>/cmd.<pid> ("exit N" | "kill N") or
 * <ctl-dir>/stopall appears, when its parent changes, or after two minutes. */
#include <stdio.h>
#include <stdlib.h>
#include <string.h>
#include <unistd.h>
#include <fcntl.h>
#include <signal.h>
#include <time.h>
#include <sys/stat.h>

int
main (int argc, char **argv)
{
  char path[4096], line[512], word[16];
  int fd, n, status;
  pid_t pid = getpid (), ppid = getppid ();
  time_t t0 = time (NULL);
  struct timespec nap = { 0, 3000000 };
  struct stat sb;
  FILE *f;

  if (argc < 3)
    return 2;
  snprintf (path, sizeof path, "%s/starts.log", argv[1]);
  fd = open (path, O_WRONLY | O_APPEND | O_CREAT, 0644);
  if (fd < 0)
    return 2;
  n = snprintf (line, sizeof line, "%s %d\n", argv[2], (int) pid);
  if (write (fd, line, n) != n)
    return 2;
  close (fd);
  while (time (NULL) - t0 < 120)
    {
      snprintf (path, sizeof path, "%s/stopall", argv[1]);
      if (stat (path, &sb) == 0 || getppid () != ppid)
        _exit (0);
      snprintf (path, sizeof path, "%s/cmd.%d", argv[1], (int) pid);
      f = fopen (path, "r");
      if (f != NULL)
        {
          if (fscanf (f, "%15s %d", word, &status) == 2)
            {
              fclose (f);
              if (strcmp (word, "kill") == 0)
                kill (pid, SIGKILL);
              _exit (status);
            }
          fclose (f);
        }
      nanosleep (&nap, NULL);
    }
  return 0;
}

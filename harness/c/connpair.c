/* connpair.c -- a libdbus connection under test plus a scripted peer (second connection through a private
 * DBusServer) in one process, both on the repository's test main loop.  Reads a script from stdin, prints one
 * JSON line per command with what libdbus did.  It decides nothing.
 *
 *  C20:  reg <path> <id> <fallback>   unreg <path>   ocall <path> <ids that handle, csv or -> [<ids that unregister their own path inside the callback>]   children <path>
 *  C17:  call <tag> <timeout_ms> <notify 0/1> [serial]   reply <tag> <ret|err|dup|bogus>   cancel <tag>   block <tag>
 *        pump <ms>   peerclose   poll <tag>   steal <tag>   fetch (read into the incoming queue, no dispatch)
 */
#include <config.h>
#include <dbus/dbus.h>
#include "test-utils.h"
#include <stdio.h>
#include <stdlib.h>
#include <string.h>
#include <unistd.h>
#include <time.h>

static DBusConnection *under_test, *peer;
static DBusServer *server;
static TestMainContext *ctx;

static void new_conn (DBusServer *s, DBusConnection *c, void *d)
{
  (void) s; (void) d;
  dbus_connection_ref (c);
  peer = c;
  test_connection_setup (ctx, c);
}

static long now_ms (void) { struct timespec t; clock_gettime (CLOCK_MONOTONIC, &t); return t.tv_sec * 1000L + t.tv_nsec / 1000000; }
static void pump (int ms)
{
  long t0 = now_ms ();
  do
    {
      test_main_context_iterate (ctx, FALSE);
      /* what "fetch" read into the queue behind the main loop's back is dispatched here (an application that reads
       * by hand dispatches by hand) */
      while (under_test && dbus_connection_get_dispatch_status (under_test) == DBUS_DISPATCH_DATA_REMAINS
             && dbus_connection_dispatch (under_test) == DBUS_DISPATCH_DATA_REMAINS)
        ;
      if (ms > 0) usleep (300);
    }
  while (now_ms () - t0 < ms);
}

/* ------------------------------------------------------------------ C20 */
#define MAXID 64
static int handles[MAXID];           /* does handler <id> claim the current call */
static int selfun[MAXID];            /* does handler <id> unregister its own path from inside the callback */
static char *regpath[MAXID];         /* the path handler <id> was registered at */
static int invoked[64], n_invoked;

static DBusHandlerResult obj_msg (DBusConnection *c, DBusMessage *m, void *data)
{
  int id = (int) (long) data;
  if (n_invoked < 64) invoked[n_invoked++] = id;
  if (id < MAXID && selfun[id] && regpath[id])
    { selfun[id] = 0; dbus_connection_unregister_object_path (c, regpath[id]); }
  if (id < MAXID && handles[id])
    {
      DBusMessage *r = dbus_message_new_method_return (m);
      dbus_int32_t v = id;
      dbus_message_append_args (r, DBUS_TYPE_INT32, &v, DBUS_TYPE_INVALID);
      dbus_connection_send (c, r, NULL);
      dbus_message_unref (r);
      return DBUS_HANDLER_RESULT_HANDLED;
    }
  return DBUS_HANDLER_RESULT_NOT_YET_HANDLED;
}
static const DBusObjectPathVTable vt = { NULL, obj_msg, NULL, NULL, NULL, NULL };

static void put_str (const char *s) { int i; putchar ('['); for (i = 0; s && s[i]; i++) printf (i ? ",%d" : "%d", (unsigned char) s[i]); putchar (']'); }

static void cmd_ocall (char *path, char *ids, char *unids)
{
  DBusMessage *m, *r;
  DBusPendingCall *pc = NULL;
  int i;
  long t0;
  memset (handles, 0, sizeof handles);
  if (ids[0] != '-') { char *t; for (t = strtok (ids, ","); t; t = strtok (NULL, ",")) { int k = atoi (t); if (k >= 0 && k < MAXID) handles[k] = 1; } }
  memset (selfun, 0, sizeof selfun);
  if (unids && unids[0] != '-') { char *t; for (t = strtok (unids, ","); t; t = strtok (NULL, ",")) { int k = atoi (t); if (k >= 0 && k < MAXID) selfun[k] = 1; } }
  n_invoked = 0;
  m = dbus_message_new_method_call (NULL, path, "com.example.T", "Who");
  dbus_connection_send_with_reply (peer, m, &pc, 3000);
  dbus_message_unref (m);
  t0 = now_ms ();
  while (!dbus_pending_call_get_completed (pc) && now_ms () - t0 < 4000) pump (0);
  r = dbus_pending_call_steal_reply (pc);
  printf ("{\"invoked\":[");
  for (i = 0; i < n_invoked; i++) printf (i ? ",%d" : "%d", invoked[i]);
  printf ("],\"reply\":");
  if (r == NULL) printf ("\"none\",\"by\":0,\"err\":[]");
  else if (dbus_message_get_type (r) == DBUS_MESSAGE_TYPE_ERROR) { printf ("\"err\",\"by\":0,\"err\":"); put_str (dbus_message_get_error_name (r)); }
  else { dbus_int32_t v = 0; dbus_message_get_args (r, NULL, DBUS_TYPE_INT32, &v, DBUS_TYPE_INVALID); printf ("\"ret\",\"by\":%d,\"err\":[]", v); }
  printf ("}\n");
  if (r) dbus_message_unref (r);
  dbus_pending_call_unref (pc);
}

/* ------------------------------------------------------------------ C17 */
#define MAXCALL 32
static struct { DBusPendingCall *pc; dbus_uint32_t serial; int notified; int has_notify; } calls[MAXCALL];
static dbus_uint32_t peer_seen[MAXCALL];    /* serial of the call the peer received, per tag (0 = not yet) */
static DBusMessage *peer_msgs[MAXCALL];

static void notify_cb (DBusPendingCall *pc, void *data) { (void) pc; calls[(int) (long) data].notified++; }
static DBusHandlerResult peer_filter (DBusConnection *c, DBusMessage *m, void *d)
{
  (void) c; (void) d;
  if (dbus_message_get_type (m) == DBUS_MESSAGE_TYPE_METHOD_CALL && dbus_message_has_interface (m, "com.example.C"))
    {
      dbus_int32_t tag = -1;
      if (dbus_message_get_args (m, NULL, DBUS_TYPE_INT32, &tag, DBUS_TYPE_INVALID) && tag >= 0 && tag < MAXCALL)
        { peer_seen[tag] = dbus_message_get_serial (m); peer_msgs[tag] = dbus_message_ref (m); }
      return DBUS_HANDLER_RESULT_HANDLED;
    }
  return DBUS_HANDLER_RESULT_NOT_YET_HANDLED;
}
static void describe (int tag)
{
  DBusPendingCall *pc = calls[tag].pc;
  printf ("{\"tag\":%d,\"serial\":%d,\"completed\":%d,\"notified\":%d", tag, (int) calls[tag].serial,
          pc ? (int) dbus_pending_call_get_completed (pc) : -1, calls[tag].notified);
}
static void put_reply (DBusMessage *r)
{
  if (!r) { printf (",\"reply\":\"none\",\"rs\":0,\"err\":[],\"tok\":-1"); return; }
  printf (",\"reply\":\"%s\",\"rs\":%d,\"err\":", dbus_message_get_type (r) == DBUS_MESSAGE_TYPE_ERROR ? "err" : "ret", (int) dbus_message_get_reply_serial (r));
  put_str (dbus_message_get_error_name (r));
  { dbus_int32_t v = -1; dbus_message_get_args (r, NULL, DBUS_TYPE_INT32, &v, DBUS_TYPE_INVALID); printf (",\"tok\":%d", v); }
}

int main (int argc, char **argv)
{
  static char line[4096];
  DBusError e = DBUS_ERROR_INIT;
  char *a;
  int i;
  (void) argc; (void) argv;
  setvbuf (stdout, NULL, _IOLBF, 0);
  ctx = test_main_context_get ();
  server = dbus_server_listen ("unix:tmpdir=/tmp", &e);
  if (!server) { fprintf (stderr, "listen: %s\n", e.message); return 2; }
  dbus_server_set_new_connection_function (server, new_conn, NULL, NULL);
  test_server_setup (ctx, server);
  a = dbus_server_get_address (server);
  under_test = dbus_connection_open_private (a, &e);
  dbus_free (a);
  if (!under_test) { fprintf (stderr, "open: %s\n", e.message); return 2; }
  dbus_connection_set_exit_on_disconnect (under_test, FALSE);
  test_connection_setup (ctx, under_test);
  for (i = 0; i < 5000 && (peer == NULL || !dbus_connection_get_is_authenticated (under_test) || !dbus_connection_get_is_authenticated (peer)); i++)
    pump (0);
  if (!peer) { fprintf (stderr, "no peer\n"); return 2; }
  dbus_connection_set_exit_on_disconnect (peer, FALSE);
  dbus_connection_add_filter (peer, peer_filter, NULL, NULL);
  while (fgets (line, sizeof line, stdin))
    {
      char *cmd, *a1, *a2, *a3;
      size_t l = strlen (line);
      while (l && (line[l - 1] == '\n' || line[l - 1] == '\r')) line[--l] = 0;
      if (!l) continue;
      char *a4;
      cmd = strtok (line, " "); a1 = strtok (NULL, " "); a2 = strtok (NULL, " "); a3 = strtok (NULL, " "); a4 = strtok (NULL, " ");
      if (!strcmp (cmd, "reg"))
        {
          DBusError e2 = DBUS_ERROR_INIT;
          dbus_bool_t ok = atoi (a3) ? dbus_connection_try_register_fallback (under_test, a1, &vt, (void *) (long) atoi (a2), &e2)
                                     : dbus_connection_try_register_object_path (under_test, a1, &vt, (void *) (long) atoi (a2), &e2);
          if (ok && atoi (a2) < MAXID) { free (regpath[atoi (a2)]); regpath[atoi (a2)] = strdup (a1); }
          printf ("{\"ok\":%d,\"err\":", ok); put_str (dbus_error_is_set (&e2) ? e2.name : NULL); printf ("}\n");
          dbus_error_free (&e2);
        }
      else if (!strcmp (cmd, "unreg"))
        { printf ("{\"ok\":%d}\n", dbus_connection_unregister_object_path (under_test, a1)); }
      else if (!strcmp (cmd, "ocall")) cmd_ocall (a1, a2, a3);
      else if (!strcmp (cmd, "children"))
        {
          char **kids = NULL; int k;
          dbus_connection_list_registered (under_test, a1, &kids);
          printf ("{\"kids\":[");
          for (k = 0; kids && kids[k]; k++) { if (k) putchar (','); put_str (kids[k]); }
          printf ("]}\n");
          dbus_free_string_array (kids);
        }
      else if (!strcmp (cmd, "call"))
        {
          int tag = atoi (a1);
          DBusMessage *m = dbus_message_new_method_call (NULL, "/c", "com.example.C", "Call");
          dbus_int32_t t = tag;
          dbus_message_append_args (m, DBUS_TYPE_INT32, &t, DBUS_TYPE_INVALID);
          calls[tag].notified = 0;
          /* an application may choose the serial itself (a connection that has sent 2^31 messages gets there too) */
          if (a4) dbus_message_set_serial (m, (dbus_uint32_t) strtoul (a4, NULL, 10));
          dbus_connection_send_with_reply (under_test, m, &calls[tag].pc, atoi (a2));
          calls[tag].serial = dbus_message_get_serial (m);
          calls[tag].has_notify = atoi (a3);
          if (calls[tag].pc && atoi (a3)) dbus_pending_call_set_notify (calls[tag].pc, notify_cb, (void *) (long) tag, NULL);
          dbus_message_unref (m);
          { long t0 = now_ms (); while (!peer_seen[tag] && dbus_connection_get_is_connected (peer) && now_ms () - t0 < 1000) pump (0); }
          describe (tag); printf (",\"seen\":%d}\n", (int) peer_seen[tag]);
        }
      else if (!strcmp (cmd, "reply"))
        {
          int tag = atoi (a1);
          DBusMessage *r = NULL;
          dbus_int32_t t = tag;
          if (peer_msgs[tag] == NULL) { printf ("{\"sent\":0}\n"); printf ("{\"t\":%ld}\n", now_ms ()); continue; }
          if (!strcmp (a2, "err")) r = dbus_message_new_error (peer_msgs[tag], "com.example.E", "x");
          else r = dbus_message_new_method_return (peer_msgs[tag]);
          if (!strcmp (a2, "bogus")) dbus_message_set_reply_serial (r, calls[tag].serial + 1000);
          if (strcmp (a2, "err")) dbus_message_append_args (r, DBUS_TYPE_INT32, &t, DBUS_TYPE_INVALID);
          dbus_connection_send (peer, r, NULL);
          if (!strcmp (a2, "dup")) dbus_connection_send (peer, r, NULL);
          dbus_message_unref (r);
          dbus_connection_flush (peer);
          printf ("{\"sent\":1}\n");
        }
      else if (!strcmp (cmd, "pump")) { pump (atoi (a1)); printf ("{\"pumped\":%d}\n", atoi (a1)); }
      else if (!strcmp (cmd, "fetch"))
        { /* read what is on the wire into the incoming queue WITHOUT dispatching it */
          long t0 = now_ms ();
          while (dbus_connection_get_dispatch_status (under_test) != DBUS_DISPATCH_DATA_REMAINS && now_ms () - t0 < 300)
            dbus_connection_read_write (under_test, 10);
          printf ("{\"queued\":%d}\n", dbus_connection_get_dispatch_status (under_test) == DBUS_DISPATCH_DATA_REMAINS); }
      else if (!strcmp (cmd, "cancel")) { int tag = atoi (a1); if (calls[tag].pc) dbus_pending_call_cancel (calls[tag].pc); describe (tag); printf ("}\n"); }
      else if (!strcmp (cmd, "block")) { int tag = atoi (a1); long t0 = now_ms (); if (calls[tag].pc) dbus_pending_call_block (calls[tag].pc); describe (tag); printf (",\"ms\":%ld}\n", now_ms () - t0); }
      else if (!strcmp (cmd, "poll")) { int tag = atoi (a1); describe (tag); printf ("}\n"); }
      else if (!strcmp (cmd, "steal"))
        {
          int tag = atoi (a1);
          DBusMessage *r = (calls[tag].pc && dbus_pending_call_get_completed (calls[tag].pc)) ? dbus_pending_call_steal_reply (calls[tag].pc) : NULL;
          describe (tag); put_reply (r); printf ("}\n");
          if (r) dbus_message_unref (r);
        }
      else if (!strcmp (cmd, "peerclose")) { dbus_connection_close (peer); pump (30); printf ("{\"connected\":%d}\n", (int) dbus_connection_get_is_connected (under_test)); }
      else printf ("{\"unknown\":1}\n");
      printf ("{\"t\":%ld}\n", now_ms ());
    }
  return 0;
}

/* busoom.c -- the message bus in-process (BusContext on the debug-pipe transport, libdbus clients in the same
 * process: the arrangement of the repository's test-bus-dispatch), with allocation-failure injection confined to
 * the bus side.  Reads a script, prints a trace in the format BusTrace.tla validates (Reset line, one Round per
 * command).  It decides nothing.
 *
 *   busoom <config file>          script on stdin, one command per line:
 *     <client> <k> req <name> <flags> | rel <name>      (any kind with '!' appended: the call carries NO_REPLY_EXPECTED)
 *                   | addmatch <rule hex> | rmmatch <rule hex> | hello
 *                  | sig <iface> <member> <arg0 hex>  | call <dest> <member>  | list <name>
 *        k = -1: no fault;  k >= 0: the (k+1)-th allocation made while the bus handles this command fails
 *     dump                        internal state of the bus (registry queues, rule counts, owned-service counts)
 */
#include <config.h>
#include <dbus/dbus.h>
#include <dbus/dbus-internals.h>
#include <dbus/dbus-list.h>
#include <dbus/dbus-string.h>
#include "bus.h"
#include "test.h"
#include "connection.h"
#include "services.h"
#include <stdio.h>
#include <stdlib.h>
#include <string.h>
#include <limits.h>

#define NCLIENT 4
#define NSLOT 6
static BusContext *ctx;
static DBusConnection *cl[NCLIENT + 1];
static char uniq[NCLIENT + 1][64];
static DBusList *inbox[NCLIENT + 1];
static int connected[NCLIENT + 1];
static dbus_uint32_t lastcall[NCLIENT + 1];     /* serial of the client's last call (for "reply") */

static int hexv (int c) { return c <= '9' ? c - '0' : (c | 32) - 'a' + 10; }
static char *unhex (const char *h)
{
  int n = (int) strlen (h) / 2, i;
  char *b = malloc (n + 1);
  if (h[0] == '-') { b[0] = 0; return b; }
  for (i = 0; i < n; i++) b[i] = (char) (hexv (h[2 * i]) * 16 + hexv (h[2 * i + 1]));
  b[n] = 0;
  return b;
}
static void put_str (const char *s) { int i; putchar ('['); for (i = 0; s && s[i]; i++) printf (i ? ",%d" : "%d", (unsigned char) s[i]); putchar (']'); }

static DBusHandlerResult collect (DBusConnection *c, DBusMessage *m, void *data)
{
  int i = (int) (long) data;
  (void) c;
  if (dbus_message_is_signal (m, DBUS_INTERFACE_LOCAL, "Disconnected")) return DBUS_HANDLER_RESULT_NOT_YET_HANDLED;
  dbus_message_ref (m);
  if (!_dbus_list_append (&inbox[i], m)) abort ();
  return DBUS_HANDLER_RESULT_HANDLED;
}

static void put_arg (DBusMessageIter *it)
{
  int t = dbus_message_iter_get_arg_type (it);
  printf ("{\"t\":%d,\"v\":", t);
  switch (t)
    {
    case 's': case 'o': case 'g': { const char *v; dbus_message_iter_get_basic (it, &v); put_str (v); break; }
    case 'b': { dbus_bool_t v; dbus_message_iter_get_basic (it, &v); printf (v ? "true" : "false"); break; }
    case 'y': { unsigned char v; dbus_message_iter_get_basic (it, &v); printf ("%d", v); break; }
    case 'i': { dbus_int32_t v; dbus_message_iter_get_basic (it, &v); printf ("%d", v); break; }
    case 'u': { dbus_uint32_t v; dbus_message_iter_get_basic (it, &v); if (v < 0x7fffffffu) printf ("%u", v); else printf ("\"#%u\"", v); break; }
    case 'a':
      { DBusMessageIter sub; int first = 1; dbus_message_iter_recurse (it, &sub); putchar ('[');
        while (dbus_message_iter_get_arg_type (&sub) != DBUS_TYPE_INVALID)
          { if (!first) putchar (','); first = 0;
            if (dbus_message_iter_get_arg_type (&sub) == 's') { const char *v; dbus_message_iter_get_basic (&sub, &v); put_str (v); } else printf ("\"?\"");
            dbus_message_iter_next (&sub); }
        putchar (']'); break; }
    default: printf ("\"?\"");
    }
  putchar ('}');
}
static void put_msg (DBusMessage *m)
{
  DBusMessageIter it;
  int first = 1;
  printf ("{\"ty\":%d,\"snd\":", dbus_message_get_type (m)); put_str (dbus_message_get_sender (m));
  printf (",\"dst\":"); put_str (dbus_message_get_destination (m));
  printf (",\"ser\":%u,\"rs\":%u,\"path\":", dbus_message_get_serial (m), dbus_message_get_reply_serial (m)); put_str (dbus_message_get_path (m));
  printf (",\"ifc\":"); put_str (dbus_message_get_interface (m));
  printf (",\"mem\":"); put_str (dbus_message_get_member (m));
  printf (",\"err\":"); put_str (dbus_message_get_error_name (m));
  printf (",\"sig\":"); put_str (dbus_message_get_signature (m));
  printf (",\"args\":[");
  dbus_message_iter_init (m, &it);
  while (dbus_message_iter_get_arg_type (&it) != DBUS_TYPE_INVALID) { if (!first) putchar (','); first = 0; put_arg (&it); dbus_message_iter_next (&it); }
  printf ("],\"fl\":%d,\"nfd\":0,\"fds\":[],\"unk\":[],\"ci\":false,\"mal\":false}",
          (dbus_message_get_no_reply (m) ? 1 : 0) | (dbus_message_get_auto_start (m) ? 0 : 2));
}

static void drain_all (void)
{
  int i;
  int j;
  for (i = 0; i < 30; i++)
    {
      bus_test_run_everything (ctx); bus_test_run_clients_loop (FALSE); bus_test_run_bus_loop (ctx, FALSE);
      for (j = 1; j <= NCLIENT; j++)
        if (cl[j]) while (dbus_connection_dispatch (cl[j]) == DBUS_DISPATCH_DATA_REMAINS) ;
    }
}

/* one Round line: ops only for client c (already printed by the caller into opbuf), obs = drained inboxes */
static void emit_round (int c, const char *opjson)
{
  int i;
  printf ("{\"e\":\"Round\",\"actMay\":0,\"actMust\":0,\"starts\":[],\"expMay\":0,\"expMust\":0,\"ops\":[");
  for (i = 1; i <= NSLOT; i++) printf ("%s[%s]", i > 1 ? "," : "", i == c ? opjson : "");
  printf ("],\"sync\":[],\"obs\":[");
  for (i = 1; i <= NSLOT; i++)
    {
      int first = 1;
      printf ("%s[", i > 1 ? "," : "");
      while (i <= NCLIENT && inbox[i] != NULL)
        {
          DBusMessage *m = _dbus_list_pop_first (&inbox[i]);
          if (!first) putchar (',');
          first = 0;
          put_msg (m);
          dbus_message_unref (m);
        }
      putchar (']');
    }
  printf ("],\"eof\":[],\"stall\":[]}\n");
}

static void dump_state (void)
{
  /* registry: for every well-known name the scenario can use */
  static const char *names[] = { "com.example.A", "com.example.B", NULL };
  BusRegistry *reg = bus_context_get_registry (ctx);
  int i, n;
  char op[8192];
  int off = 0;
  off += snprintf (op + off, sizeof op - off, "{\"k\":\"dump\",\"names\":[");
  for (n = 0; names[n]; n++)
    {
      DBusString s; BusService *svc; DBusList *owners = NULL, *l; int first = 1;
      _dbus_string_init_const (&s, names[n]);
      svc = bus_registry_lookup (reg, &s);
      off += snprintf (op + off, sizeof op - off, "%s{\"n\":[", n ? "," : "");
      for (i = 0; names[n][i]; i++) off += snprintf (op + off, sizeof op - off, i ? ",%d" : "%d", names[n][i]);
      off += snprintf (op + off, sizeof op - off, "],\"ar\":%s,\"q\":[", svc && bus_service_get_allow_replacement (svc) ? "true" : "false");
      if (svc && bus_service_list_queued_owners (svc, &owners))
        for (l = _dbus_list_get_first_link (&owners); l; l = _dbus_list_get_next_link (&owners, l))
          {
            const char *u = l->data; int slot = 0, j;
            for (j = 1; j <= NCLIENT; j++) if (!strcmp (uniq[j], u)) slot = j;
            off += snprintf (op + off, sizeof op - off, first ? "%d" : ",%d", slot);
            first = 0;
          }
      _dbus_list_clear (&owners);
      off += snprintf (op + off, sizeof op - off, "]}");
    }
  off += snprintf (op + off, sizeof op - off, "],\"nrules\":[");
  for (i = 1; i <= NSLOT; i++)
    {
      int nr = 0;
      if (i <= NCLIENT && uniq[i][0])
        {
          DBusString s; BusService *svc;
          _dbus_string_init_const (&s, uniq[i]);
          svc = bus_registry_lookup (reg, &s);
          if (svc) nr = bus_connection_get_n_match_rules (bus_service_get_primary_owners_connection (svc));
        }
      off += snprintf (op + off, sizeof op - off, i > 1 ? ",%d" : "%d", nr);
    }
  /* ... and how many services each connection believes it owns (unique name included; the names limit counts these) */
  off += snprintf (op + off, sizeof op - off, "],\"nowned\":[");
  for (i = 1; i <= NSLOT; i++)
    {
      int no = i <= NCLIENT && !uniq[i][0] && connected[i] ? -1 : 0;    /* -1: a client that was never told its name */
      if (i <= NCLIENT && uniq[i][0])
        {
          DBusString s; BusService *svc;
          _dbus_string_init_const (&s, uniq[i]);
          svc = bus_registry_lookup (reg, &s);
          if (svc) no = bus_connection_get_n_services_owned (bus_service_get_primary_owners_connection (svc));
        }
      off += snprintf (op + off, sizeof op - off, i > 1 ? ",%d" : "%d", no);
    }
  off += snprintf (op + off, sizeof op - off, "]}");
  emit_round (1, op);
}

int main (int argc, char **argv)
{
  static char line[8192];
  DBusString cfg;
  DBusError e = DBUS_ERROR_INIT;
  int i;
  if (argc < 2) return 2;
  setvbuf (stdout, NULL, _IOFBF, 1 << 16);
  _dbus_string_init_const (&cfg, argv[1]);
  ctx = bus_context_new (&cfg, BUS_CONTEXT_FLAG_NONE, NULL, NULL, NULL, &e);
  if (!ctx) { fprintf (stderr, "context: %s\n", e.message); return 2; }
  printf ("{\"e\":\"Reset\",\"cfg\":{\"maxNames\":100000,\"maxMatch\":100000,\"maxReplies\":100000,\"maxCompleted\":100000,\"maxPerUser\":100000,\"busUid\":0,\"policy\":{\"kind\":\"allow-all\"},\"maxMsgFds\":16,\"maxMsgSize\":33554432}}\n");
  for (i = 1; i <= NCLIENT; i++)
    {
      cl[i] = dbus_connection_open_private ("debug-pipe:name=test-server", &e);
      if (!cl[i]) { fprintf (stderr, "open: %s\n", e.message); return 2; }
      if (!bus_setup_debug_client (cl[i])) return 2;
      dbus_connection_add_filter (cl[i], collect, (void *) (long) i, NULL);
      while (!dbus_connection_get_is_authenticated (cl[i])) { bus_test_run_bus_loop (ctx, FALSE); bus_test_run_clients_loop (FALSE); }
    }
  while (fgets (line, sizeof line, stdin))
    {
      char *c_s, *k_s, *kind, *a1, *a2, *a3;
      char op[8192];
      int c, k, counted = -1, noreply = 0;
      DBusMessage *m = NULL;
      dbus_uint32_t ser = 0;
      size_t l = strlen (line);
      while (l && (line[l - 1] == '\n' || line[l - 1] == '\r')) line[--l] = 0;
      if (!l) continue;
      if (!strcmp (line, "dump")) { dump_state (); continue; }
      c_s = strtok (line, " "); k_s = strtok (NULL, " "); kind = strtok (NULL, " ");
      a1 = strtok (NULL, " "); a2 = strtok (NULL, " "); a3 = strtok (NULL, " ");
      c = atoi (c_s); k = atoi (k_s);
      { size_t kl = strlen (kind); noreply = kl > 1 && kind[kl - 1] == '!'; if (noreply) kind[kl - 1] = 0; }   /* "req!": NO_REPLY_EXPECTED */
      if (!strcmp (kind, "hello"))
        {
          m = dbus_message_new_method_call (DBUS_SERVICE_DBUS, DBUS_PATH_DBUS, DBUS_INTERFACE_DBUS, "Hello");
        }
      else if (!strcmp (kind, "req"))
        { dbus_uint32_t f = (dbus_uint32_t) atoi (a2); m = dbus_message_new_method_call (DBUS_SERVICE_DBUS, DBUS_PATH_DBUS, DBUS_INTERFACE_DBUS, "RequestName");
          dbus_message_append_args (m, DBUS_TYPE_STRING, &a1, DBUS_TYPE_UINT32, &f, DBUS_TYPE_INVALID); }
      else if (!strcmp (kind, "rel"))
        { m = dbus_message_new_method_call (DBUS_SERVICE_DBUS, DBUS_PATH_DBUS, DBUS_INTERFACE_DBUS, "ReleaseName"); dbus_message_append_args (m, DBUS_TYPE_STRING, &a1, DBUS_TYPE_INVALID); }
      else if (!strcmp (kind, "addmatch") || !strcmp (kind, "rmmatch"))
        { char *r = unhex (a1); m = dbus_message_new_method_call (DBUS_SERVICE_DBUS, DBUS_PATH_DBUS, DBUS_INTERFACE_DBUS, kind[0] == 'a' ? "AddMatch" : "RemoveMatch");
          dbus_message_append_args (m, DBUS_TYPE_STRING, &r, DBUS_TYPE_INVALID); free (r); }
      else if (!strcmp (kind, "list"))
        { m = dbus_message_new_method_call (DBUS_SERVICE_DBUS, DBUS_PATH_DBUS, DBUS_INTERFACE_DBUS, "ListQueuedOwners"); dbus_message_append_args (m, DBUS_TYPE_STRING, &a1, DBUS_TYPE_INVALID); }
      else if (!strcmp (kind, "sig"))
        { char *v = unhex (a3); m = dbus_message_new_signal ("/a", a1, a2); dbus_message_append_args (m, DBUS_TYPE_STRING, &v, DBUS_TYPE_INVALID); free (v); }
      else if (!strcmp (kind, "call"))
        { const char *d_ = a1[0] == (char) 64 ? uniq[atoi (a1 + 1)] : a1; if (getenv ("BUSOOM_DEBUG")) fprintf (stderr, "call dest=[%s] a1=[%s]\n", d_, a1); m = dbus_message_new_method_call (d_, "/a", "com.example.I", a2); }
      else if (!strcmp (kind, "reply"))
        { /* answer the last call of client a1 */
          m = dbus_message_new (DBUS_MESSAGE_TYPE_METHOD_RETURN);
          dbus_message_set_destination (m, uniq[atoi (a1)]);
          dbus_message_set_reply_serial (m, lastcall[atoi (a1)]);
          dbus_message_set_no_reply (m, TRUE); }
      else if (!strcmp (kind, "drop"))
        { /* the client goes away without a word */
          dbus_connection_close (cl[c]); dbus_connection_unref (cl[c]); cl[c] = NULL;
          drain_all ();
          emit_round (c, "{\"k\":\"aclose\",\"waseof\":false,\"oom\":false}");
          continue; }
      else continue;
      if (noreply) dbus_message_set_no_reply (m, TRUE);
      if (!dbus_connection_send (cl[c], m, &ser)) abort ();
      if (!strcmp (kind, "call")) lastcall[c] = ser;
      /* the request reaches the bus with injection off ... */
      bus_test_run_clients_loop (FALSE);
      /* ... the bus handles it with the (k+1)-th allocation failing ... */
      if (k >= 0) _dbus_set_fail_alloc_counter (k); else _dbus_set_fail_alloc_counter (1000000);
      bus_test_run_bus_loop (ctx, FALSE);
      counted = (k >= 0 ? k : 1000000) - _dbus_get_fail_alloc_counter ();
      if (_dbus_get_fail_alloc_counter () > 1000000 || counted < 0) counted = -1;   /* the failure happened (counter was reset) */
      _dbus_set_fail_alloc_counter (_DBUS_INT_MAX);
      /* ... and everything settles with injection off */
      drain_all ();
      {
        int off = 0, j;
        if (!strcmp (kind, "hello") && !connected[c]++) off += snprintf (op + off, sizeof op - off, "{\"k\":\"connect\",\"uid\":0,\"fdcap\":false,\"oom\":false},");
        off += snprintf (op + off, sizeof op - off, "{\"k\":\"%s\",\"ser\":%u,\"fl\":%d,\"oom\":%s,\"allocs\":%d",
                         !strcmp (kind, "list") ? "query" : !strcmp (kind, "sig") || !strcmp (kind, "call") || !strcmp (kind, "reply") ? "send" : kind, ser,
                         (dbus_message_get_no_reply (m) ? 1 : 0) | (dbus_message_get_auto_start (m) ? 0 : 2), k >= 0 ? "true" : "false", counted);
        if (!strcmp (kind, "hello"))
          {
            /* bind the unique name from the reply, if any */
            DBusList *lk; const char *got = NULL;
            for (lk = _dbus_list_get_first_link (&inbox[c]); lk; lk = _dbus_list_get_next_link (&inbox[c], lk))
              { DBusMessage *r = lk->data; if (dbus_message_get_type (r) == DBUS_MESSAGE_TYPE_METHOD_RETURN && dbus_message_get_reply_serial (r) == ser) dbus_message_get_args (r, NULL, DBUS_TYPE_STRING, &got, DBUS_TYPE_INVALID); }
            if (got) snprintf (uniq[c], sizeof uniq[c], "%s", got);
            off += snprintf (op + off, sizeof op - off, ",\"got\":[");
            for (j = 0; got && got[j]; j++) off += snprintf (op + off, sizeof op - off, j ? ",%d" : "%d", got[j]);
            off += snprintf (op + off, sizeof op - off, "]");
          }
        else if (!strcmp (kind, "req") || !strcmp (kind, "rel") || !strcmp (kind, "list"))
          {
            off += snprintf (op + off, sizeof op - off, ",\"n\":[");
            for (j = 0; a1[j]; j++) off += snprintf (op + off, sizeof op - off, j ? ",%d" : "%d", a1[j]);
            off += snprintf (op + off, sizeof op - off, "]");
            if (!strcmp (kind, "req")) off += snprintf (op + off, sizeof op - off, ",\"f\":%d", atoi (a2));
            if (!strcmp (kind, "list")) off += snprintf (op + off, sizeof op - off, ",\"q\":\"queued\"");
          }
        else if (!strcmp (kind, "addmatch") || !strcmp (kind, "rmmatch"))
          {
            char *r = unhex (a1);
            off += snprintf (op + off, sizeof op - off, ",\"rule\":[");
            for (j = 0; r[j]; j++) off += snprintf (op + off, sizeof op - off, j ? ",%d" : "%d", (unsigned char) r[j]);
            off += snprintf (op + off, sizeof op - off, "]");
            free (r);
          }
        else
          {
            /* routed message: the fields OpMsg() reads */
            const char *f[6]; int q;
            f[0] = dbus_message_get_destination (m); f[1] = dbus_message_get_path (m); f[2] = dbus_message_get_interface (m);
            f[3] = dbus_message_get_member (m); f[4] = NULL; f[5] = dbus_message_get_signature (m);
            off += snprintf (op + off, sizeof op - off, ",\"ty\":%d,\"rs\":%u,\"nfd\":0,\"att\":[],\"fsnd\":[]", dbus_message_get_type (m), dbus_message_get_reply_serial (m));
            for (q = 0; q < 6; q++)
              {
                static const char *nm[] = { "dst", "path", "ifc", "mem", "err", "sig" };
                off += snprintf (op + off, sizeof op - off, ",\"%s\":[", nm[q]);
                for (j = 0; f[q] && f[q][j]; j++) off += snprintf (op + off, sizeof op - off, j ? ",%d" : "%d", (unsigned char) f[q][j]);
                off += snprintf (op + off, sizeof op - off, "]");
              }
            off += snprintf (op + off, sizeof op - off, ",\"args\":[");
            if (!strcmp (kind, "sig"))
              {
                char *v = unhex (a3);
                off += snprintf (op + off, sizeof op - off, "{\"t\":115,\"v\":[");
                for (j = 0; v[j]; j++) off += snprintf (op + off, sizeof op - off, j ? ",%d" : "%d", (unsigned char) v[j]);
                off += snprintf (op + off, sizeof op - off, "]}");
                free (v);
              }
            off += snprintf (op + off, sizeof op - off, "]");
          }
        snprintf (op + off, sizeof op - off, "}");
      }
      dbus_message_unref (m);
      emit_round (c, op);
      fflush (stdout);
    }
  /* (no teardown / leak report: see DESIGN.md, residuals of C14) */
  fflush (stdout);
  return 0;
}

/* connthr: several threads use ONE DBusConnection at the same time (blocking on pending calls, waiting for
 * notification, polling, with or without a dispatching thread) against a scripted raw peer inside the same
 * process.  The peer answers in batches written with a single write(), in any order, or not at all.
 *
 * stdin (one scenario):
 *   T <nthreads> D <dispatcher 0|1> S <nsteps>
 *   then for each step:  P <delay_ms> <order-seed> <noise 0|1>   (peer: wait for the step's calls, [write an unrelated
 *                        message at once,] sleep, answer in one write)
 *                        and for each thread:  C <mode b|n|p> <timeout_ms> <answered 0|1>
 * stdout: one JSON object {"k":"pthr","dispatcher":d,"calls":[{thr,step,mode,timeout,answered,ser,sent,wrote,done,n,kind,rs}]}
 *   times in ms since start; comp = completed flag; n = notifications received; kind 2 = method return, 3 = error, 0 = none. */
#include <dbus/dbus.h>
#include <errno.h>
#include <poll.h>
#include <pthread.h>
#include <stdio.h>
#include <stdlib.h>
#include <string.h>
#include <sys/socket.h>
#include <sys/un.h>
#include <time.h>
#include <unistd.h>

#define MAXT 6
#define MAXS 12

typedef struct {
  char mode; int timeout; int answered;
  unsigned ser; long sent, wrote, done; int n; int comp; int kind; unsigned rs;
  DBusPendingCall *pc;
} Call;

static Call calls[MAXS][MAXT];
static int nthreads, nsteps, dispatcher;
static int peer_delay[MAXS];
static int peer_noise[MAXS];      /* write an unrelated message at once, before the answers */
static unsigned peer_seed[MAXS];
static DBusConnection *conn;
static int lfd = -1, pfd = -1;
static char sockpath[200];
static pthread_barrier_t bar;
static pthread_mutex_t mu = PTHREAD_MUTEX_INITIALIZER;
static pthread_cond_t cv = PTHREAD_COND_INITIALIZER;
static volatile int stop_dispatch;
static volatile int recorded;      /* calls whose serial the issuing thread has written down */
static struct timespec t0;

static long
now_ms (void)
{
  struct timespec t;
  clock_gettime (CLOCK_MONOTONIC, &t);
  return (t.tv_sec - t0.tv_sec) * 1000 + (t.tv_nsec - t0.tv_nsec) / 1000000;
}

static void
die (const char *m)
{
  fprintf (stderr, "connthr: %s\n", m);
  exit (2);
}

/* ---- raw peer ---- */
static int
peer_readline (char *buf, int max)
{
  int n = 0;
  char c;
  while (n < max - 1)
    {
      if (read (pfd, &c, 1) != 1)
        return -1;
      if (c == '\n')
        break;
      if (c != '\r')
        buf[n++] = c;
    }
  buf[n] = 0;
  return n;
}

static void
peer_write (const void *p, size_t n)
{
  const char *c = p;
  while (n > 0)
    {
      ssize_t w = write (pfd, c, n);
      if (w <= 0)
        return;
      c += w;
      n -= w;
    }
}

static void
peer_handshake (void)
{
  char line[512], c;
  if (read (pfd, &c, 1) != 1)
    die ("peer: no nul byte");
  for (;;)
    {
      if (peer_readline (line, sizeof line) < 0)
        die ("peer: eof in handshake");
      if (strncmp (line, "AUTH EXTERNAL", 13) == 0)
        peer_write ("OK 0123456789abcdef0123456789abcdef\r\n", 37);
      else if (strncmp (line, "AUTH", 4) == 0)
        peer_write ("REJECTED EXTERNAL\r\n", 19);
      else if (strcmp (line, "NEGOTIATE_UNIX_FD") == 0)
        peer_write ("ERROR\r\n", 7);
      else if (strcmp (line, "BEGIN") == 0)
        return;
      else
        peer_write ("ERROR\r\n", 7);
    }
}

/* read one message, return its serial and type */
static int
peer_read_message (unsigned *serial, int *type, int timeout_ms)
{
  unsigned char h[16];
  unsigned blen, flen, total, got = 0;
  unsigned char *rest;
  struct pollfd p = { pfd, POLLIN, 0 };
  if (poll (&p, 1, timeout_ms) <= 0)
    return 0;
  while (got < 16)
    {
      ssize_t r = read (pfd, h + got, 16 - got);
      if (r <= 0)
        return -1;
      got += r;
    }
  if (h[0] != 'l')
    die ("peer: big-endian client?");
  memcpy (&blen, h + 4, 4);
  memcpy (serial, h + 8, 4);
  memcpy (&flen, h + 12, 4);
  *type = h[1];
  total = ((flen + 7) & ~7u) + blen;
  rest = malloc (total + 1);
  got = 0;
  while (got < total)
    {
      ssize_t r = read (pfd, rest + got, total - got);
      if (r <= 0)
        return -1;
      got += r;
    }
  free (rest);
  return 1;
}

static size_t
make_reply (unsigned char *b, unsigned serial, unsigned rs)
{
  unsigned v;
  memset (b, 0, 24);
  b[0] = 'l'; b[1] = 2; b[2] = 1; b[3] = 1;
  memcpy (b + 8, &serial, 4);
  v = 8;
  memcpy (b + 12, &v, 4);
  b[16] = 5; b[17] = 1; b[18] = 'u'; b[19] = 0;
  memcpy (b + 20, &rs, 4);
  return 24;
}

static void *
peer_main (void *arg)
{
  int step;
  unsigned myser = 1000;
  (void) arg;
  pfd = accept (lfd, NULL, NULL);
  if (pfd < 0)
    die ("accept");
  peer_handshake ();
  for (step = 0; step < nsteps; step++)
    {
      unsigned sers[MAXT];
      int got = 0, i, order[MAXT];
      unsigned char buf[24 * MAXT];
      size_t len = 0;
      /* (the clients may still be sitting out the deadlines of the previous step's unanswered calls) */
      long deadline = now_ms () + 30000;
      unsigned seed = peer_seed[step];
      struct timespec d;
      while (got < nthreads && now_ms () < deadline)
        {
          unsigned ser;
          int type, r = peer_read_message (&ser, &type, 100);
          if (r < 0)
            return NULL;
          if (r == 1 && type == 1)
            sers[got++] = ser;
        }
      /* the issuing threads have noted their serials (the peer may well have the bytes before that) */
      while (recorded < nthreads * (step + 1) && now_ms () < deadline + 2000)
        usleep (200);
      if (peer_noise[step])
        {
          unsigned char nb[24];
          size_t nl = make_reply (nb, ++myser, 0x7ffffff0u);      /* answers nothing that is outstanding */
          peer_write (nb, nl);
        }
      d.tv_sec = peer_delay[step] / 1000;
      d.tv_nsec = (peer_delay[step] % 1000) * 1000000L;
      nanosleep (&d, NULL);
      for (i = 0; i < got; i++)
        order[i] = i;
      for (i = got - 1; i > 0; i--)
        {
          int j, t;
          seed = seed * 1103515245u + 12345u;
          j = (seed >> 16) % (i + 1);
          t = order[i]; order[i] = order[j]; order[j] = t;
        }
      for (i = 0; i < got; i++)
        {
          int t, k = order[i];
          for (t = 0; t < nthreads; t++)
            if (calls[step][t].ser == sers[k] && calls[step][t].answered)
              {
                len += make_reply (buf + len, ++myser, sers[k]);
                calls[step][t].wrote = -2;      /* time filled in just before the write */
              }
        }
      if (len > 0)
        {
          long w = now_ms ();
          int t;
          for (t = 0; t < nthreads; t++)
            if (calls[step][t].wrote == -2)
              calls[step][t].wrote = w;
          peer_write (buf, len);               /* every answer of this step in ONE write */
        }
    }
  /* keep the line open until the clients are done */
  {
    char c;
    while (read (pfd, &c, 1) > 0)
      ;
  }
  return NULL;
}

/* ---- client side ---- */
static void
notified (DBusPendingCall *pc, void *data)
{
  Call *c = data;
  (void) pc;
  pthread_mutex_lock (&mu);
  c->n++;
  if (c->done < 0)
    c->done = now_ms ();
  pthread_cond_broadcast (&cv);
  pthread_mutex_unlock (&mu);
}

static void
take_reply (Call *c)
{
  DBusMessage *r = dbus_pending_call_steal_reply (c->pc);
  if (r != NULL)
    {
      c->kind = dbus_message_get_type (r);
      c->rs = dbus_message_get_reply_serial (r);
      dbus_message_unref (r);
    }
}

static void *
client_main (void *arg)
{
  int t = (int) (long) arg, step;
  for (step = 0; step < nsteps; step++)
    {
      Call *c = &calls[step][t];
      DBusMessage *m;
      pthread_barrier_wait (&bar);
      m = dbus_message_new_method_call (NULL, "/x", "com.example.I", "M");
      c->done = -1;
      if (!dbus_connection_send_with_reply (conn, m, &c->pc, c->timeout) || c->pc == NULL)
        die ("send_with_reply");
      c->ser = dbus_message_get_serial (m);
      c->sent = now_ms ();
      __sync_fetch_and_add (&recorded, 1);
      dbus_message_unref (m);
      /* every call of the step is on the wire before any thread starts to wait (a thread that polls with the I/O
       * path in its hands would otherwise keep the others' calls from being written until its own wait ends) */
      dbus_connection_flush (conn);
      pthread_barrier_wait (&bar);
      if (c->mode == 'b')
        {
          dbus_pending_call_block (c->pc);
          c->done = now_ms ();
          c->comp = dbus_pending_call_get_completed (c->pc) ? 1 : 0;
          take_reply (c);
        }
      else if (c->mode == 'n')
        {
          long deadline = now_ms () + c->timeout + 4000;
          if (!dbus_pending_call_set_notify (c->pc, notified, c, NULL))
            die ("set_notify");
          /* (a call completed between sending and installing the function is never notified: the completion flag
           * is what counts, the number of notifications must not exceed one and is read at the very end) */
          while (!dbus_pending_call_get_completed (c->pc) && now_ms () < deadline)
            {
              if (!dispatcher)
                dbus_connection_read_write_dispatch (conn, 20);
              else
                usleep (2000);
            }
          if (dbus_pending_call_get_completed (c->pc))
            {
              pthread_mutex_lock (&mu);
              if (c->done < 0)
                c->done = now_ms ();
              pthread_mutex_unlock (&mu);
              c->comp = 1;
              take_reply (c);
            }
        }
      else
        {
          long deadline = now_ms () + c->timeout + 4000;
          while (!dbus_pending_call_get_completed (c->pc) && now_ms () < deadline)
            {
              if (!dispatcher)
                dbus_connection_read_write_dispatch (conn, 20);
              else
                usleep (2000);
            }
          if (dbus_pending_call_get_completed (c->pc))
            {
              c->done = now_ms ();
              c->comp = 1;
              take_reply (c);
            }
        }
      pthread_barrier_wait (&bar);
    }
  return NULL;
}

static void *
dispatch_main (void *arg)
{
  (void) arg;
  while (!stop_dispatch)
    dbus_connection_read_write_dispatch (conn, 20);
  return NULL;
}

int
main (void)
{
  struct sockaddr_un sun;
  pthread_t peer, thr[MAXT], disp;
  DBusError e;
  char addr[300];
  int s, t;

  clock_gettime (CLOCK_MONOTONIC, &t0);
  if (scanf (" T %d D %d S %d", &nthreads, &dispatcher, &nsteps) != 3 || nthreads > MAXT || nsteps > MAXS)
    die ("bad header");
  for (s = 0; s < nsteps; s++)
    {
      if (scanf (" P %d %u %d", &peer_delay[s], &peer_seed[s], &peer_noise[s]) != 3)
        die ("bad P line");
      for (t = 0; t < nthreads; t++)
        {
          Call *c = &calls[s][t];
          if (scanf (" C %c %d %d", &c->mode, &c->timeout, &c->answered) != 3)
            die ("bad C line");
          c->wrote = -1;
          c->done = -1;
        }
    }
  snprintf (sockpath, sizeof sockpath, "/tmp/connthr-%d.sock", (int) getpid ());
  unlink (sockpath);
  lfd = socket (AF_UNIX, SOCK_STREAM, 0);
  memset (&sun, 0, sizeof sun);
  sun.sun_family = AF_UNIX;
  strcpy (sun.sun_path, sockpath);
  if (bind (lfd, (struct sockaddr *) &sun, sizeof sun) < 0 || listen (lfd, 1) < 0)
    die ("bind/listen");
  if (!dbus_threads_init_default ())
    die ("threads init");
  pthread_create (&peer, NULL, peer_main, NULL);
  dbus_error_init (&e);
  snprintf (addr, sizeof addr, "unix:path=%s", sockpath);
  conn = dbus_connection_open_private (addr, &e);
  if (conn == NULL)
    die (e.message);
  dbus_connection_set_exit_on_disconnect (conn, FALSE);
  unlink (sockpath);
  pthread_barrier_init (&bar, NULL, nthreads);
  if (dispatcher)
    pthread_create (&disp, NULL, dispatch_main, NULL);
  for (t = 0; t < nthreads; t++)
    pthread_create (&thr[t], NULL, client_main, (void *) (long) t);
  for (t = 0; t < nthreads; t++)
    pthread_join (thr[t], NULL);
  stop_dispatch = 1;
  if (dispatcher)
    pthread_join (disp, NULL);
  printf ("{\"k\":\"pthr\",\"dispatcher\":%d,\"calls\":[", dispatcher);
  for (s = 0; s < nsteps; s++)
    for (t = 0; t < nthreads; t++)
      {
        Call *c = &calls[s][t];
        printf ("%s{\"thr\":%d,\"step\":%d,\"mode\":\"%c\",\"timeout\":%d,\"answered\":%d,\"ser\":%u,\"sent\":%ld,\"wrote\":%ld,"
                "\"done\":%ld,\"n\":%d,\"comp\":%d,\"kind\":%d,\"rs\":%u}", (s || t) ? "," : "", t, s, c->mode, c->timeout, c->answered,
                c->ser, c->sent, c->wrote, c->done, c->n, c->comp, c->kind, c->rs);
      }
  printf ("]}\n");
  fflush (stdout);
  dbus_connection_close (conn);
  dbus_connection_unref (conn);
  _exit (0);
}

/* wirecase.c -- drives libdbus's message parser / builder / header editor / syntax predicates on cases
 * read from stdin and prints what the library did as one JSON line per case.  It decides nothing.
 *
 *   wirecase syntax     lines: <grammar> <hex string> <hex message or ->      -> {"pub":..,"int":..,"msg":..}
 *   wirecase demarshal  lines: <hex bytes>                                      -> {"need":..,"acc":..,"m":{..}}
 *   wirecase chunks     lines: <hex bytes> <n1,n2,...>                          -> {"steps":[{"fed":..,"out":[serials],"corrupt":b}]}
 *   wirecase edit       lines: <hex bytes> <op;op;...>                          -> {"steps":[{"ok":b,"bytes":hex,"m":{..}}]}
 *   wirecase build      lines: <program>                                        -> {"bytes":hex,...}
 */
#include <config.h>
#include <dbus/dbus.h>
#include <dbus/dbus-internals.h>
#include <dbus/dbus-string.h>
#include <dbus/dbus-message-internal.h>
#include <dbus/dbus-marshal-validate.h>
#include <dbus/dbus-marshal-byteswap.h>
#include <dbus/dbus-marshal-header.h>
#include <dbus/dbus-message-private.h>
#include <dbus/dbus-signature.h>
#include <stdio.h>
#include <stdlib.h>
#include <string.h>

static int hexv (int c) { return c <= '9' ? c - '0' : (c | 32) - 'a' + 10; }
static unsigned char *unhex (const char *h, int *n)
{
  int len = (int) strlen (h) / 2, i;
  unsigned char *b = malloc (len + 1);
  if (h[0] == '-') { *n = 0; b[0] = 0; return b; }
  for (i = 0; i < len; i++) b[i] = (unsigned char) (hexv (h[2 * i]) * 16 + hexv (h[2 * i + 1]));
  b[len] = 0;
  *n = len;
  return b;
}
static void put_bytes (const unsigned char *b, int n)
{
  int i;
  putchar ('[');
  for (i = 0; i < n; i++) printf (i ? ",%d" : "%d", b[i]);
  putchar (']');
}
static void put_str (const char *s) { if (s) put_bytes ((const unsigned char *) s, (int) strlen (s)); else printf ("[]"); }
static void put_hex (const unsigned char *b, int n) { int i; putchar ('"'); for (i = 0; i < n; i++) printf ("%02x", b[i]); putchar ('"'); }

/* ---- canonical dump of a value tree through the public iterator API ---- */
static void dump_iter (DBusMessageIter *it);
static void dump_value (DBusMessageIter *it)
{
  int t = dbus_message_iter_get_arg_type (it);
  printf ("{\"t\":%d,", t == DBUS_TYPE_STRUCT ? '(' : t == DBUS_TYPE_DICT_ENTRY ? '{' : t);
  switch (t)
    {
    case DBUS_TYPE_BYTE: { unsigned char v; dbus_message_iter_get_basic (it, &v); printf ("\"v\":[%d]", v); break; }
    case DBUS_TYPE_BOOLEAN: { dbus_bool_t v; unsigned char b[4]; dbus_message_iter_get_basic (it, &v); b[0] = v & 255; b[1] = (v >> 8) & 255; b[2] = (v >> 16) & 255; b[3] = (v >> 24) & 255; printf ("\"v\":"); put_bytes (b, 4); break; }
    case DBUS_TYPE_INT16: case DBUS_TYPE_UINT16: { dbus_uint16_t v; unsigned char b[2]; dbus_message_iter_get_basic (it, &v); b[0] = v & 255; b[1] = v >> 8; printf ("\"v\":"); put_bytes (b, 2); break; }
    case DBUS_TYPE_INT32: case DBUS_TYPE_UINT32: case DBUS_TYPE_UNIX_FD:
      { dbus_uint32_t v; unsigned char b[4]; int i; dbus_message_iter_get_basic (it, &v); for (i = 0; i < 4; i++) b[i] = (v >> (8 * i)) & 255; printf ("\"v\":"); put_bytes (b, 4); break; }
    case DBUS_TYPE_INT64: case DBUS_TYPE_UINT64: case DBUS_TYPE_DOUBLE:
      { dbus_uint64_t v; unsigned char b[8]; int i; dbus_message_iter_get_basic (it, &v); for (i = 0; i < 8; i++) b[i] = (unsigned char) ((v >> (8 * i)) & 255); printf ("\"v\":"); put_bytes (b, 8); break; }
    case DBUS_TYPE_STRING: case DBUS_TYPE_OBJECT_PATH: case DBUS_TYPE_SIGNATURE:
      { const char *v; dbus_message_iter_get_basic (it, &v); printf ("\"v\":"); put_str (v); break; }
    case DBUS_TYPE_VARIANT:
      { DBusMessageIter sub; char *s; dbus_message_iter_recurse (it, &sub); s = dbus_message_iter_get_signature (&sub); printf ("\"s\":"); put_str (s); dbus_free (s); printf (",\"v\":"); dump_value (&sub); break; }
    case DBUS_TYPE_ARRAY:
      { DBusMessageIter sub; char *s; dbus_message_iter_recurse (it, &sub); s = dbus_message_iter_get_signature (&sub); printf ("\"es\":"); put_str (s); dbus_free (s);
        printf (",\"n\":%d,\"v\":", dbus_message_iter_get_element_count (it)); dump_iter (&sub); break; }
    case DBUS_TYPE_STRUCT: case DBUS_TYPE_DICT_ENTRY:
      { DBusMessageIter sub; dbus_message_iter_recurse (it, &sub); printf ("\"v\":"); dump_iter (&sub); break; }
    default: printf ("\"v\":\"?\"");
    }
  putchar ('}');
}
static void dump_iter (DBusMessageIter *it)
{
  int first = 1;
  putchar ('[');
  while (dbus_message_iter_get_arg_type (it) != DBUS_TYPE_INVALID)
    {
      if (!first) putchar (',');
      first = 0;
      dump_value (it);
      dbus_message_iter_next (it);
    }
  putchar (']');
}
static void dump_message (DBusMessage *m)
{
  DBusMessageIter it;
  printf ("{\"ty\":%d,\"fl\":%d,\"ser\":", dbus_message_get_type (m),
          (dbus_message_get_no_reply (m) ? 1 : 0) | (dbus_message_get_auto_start (m) ? 0 : 2) | (dbus_message_get_allow_interactive_authorization (m) ? 4 : 0));
  { dbus_uint32_t s = dbus_message_get_serial (m); unsigned char b[4]; int i; for (i = 0; i < 4; i++) b[i] = (s >> (8 * i)) & 255; put_bytes (b, 4); }
  printf (",\"rs\":");
  { dbus_uint32_t s = dbus_message_get_reply_serial (m); unsigned char b[4]; int i; for (i = 0; i < 4; i++) b[i] = (s >> (8 * i)) & 255; put_bytes (b, 4); }
  printf (",\"path\":"); put_str (dbus_message_get_path (m));
  printf (",\"ifc\":"); put_str (dbus_message_get_interface (m));
  printf (",\"mem\":"); put_str (dbus_message_get_member (m));
  printf (",\"err\":"); put_str (dbus_message_get_error_name (m));
  printf (",\"dst\":"); put_str (dbus_message_get_destination (m));
  printf (",\"snd\":"); put_str (dbus_message_get_sender (m));
  printf (",\"ci\":"); put_str (dbus_message_get_container_instance (m));
  printf (",\"sig\":"); put_str (dbus_message_get_signature (m));
  printf (",\"body\":");
  dbus_message_iter_init (m, &it);
  dump_iter (&it);
  putchar ('}');
}

/* ---- syntax ---- */
static int v3 (dbus_bool_t b) { return b ? 1 : 0; }
static void do_syntax (char *line)
{
  char g[32], *hs, *hm;
  unsigned char *s, *mb;
  int n, mn, has_nul, pub = -1, in = -1, msg = -1;
  DBusString str;
  hs = strchr (line, ' '); *hs++ = 0; strncpy (g, line, 31); g[31] = 0;
  hm = strchr (hs, ' '); *hm++ = 0;
  s = unhex (hs, &n);
  mb = unhex (hm, &mn);
  has_nul = memchr (s, 0, n) != NULL;
  _dbus_string_init_const_len (&str, (const char *) s, n);
  if (!strcmp (g, "bus")) { if (!has_nul) pub = v3 (dbus_validate_bus_name ((const char *) s, NULL)); in = v3 (_dbus_validate_bus_name (&str, 0, n)); }
  else if (!strcmp (g, "ifc")) { if (!has_nul) pub = v3 (dbus_validate_interface ((const char *) s, NULL)); in = v3 (_dbus_validate_interface (&str, 0, n)); }
  else if (!strcmp (g, "mem")) { if (!has_nul) pub = v3 (dbus_validate_member ((const char *) s, NULL)); in = v3 (_dbus_validate_member (&str, 0, n)); }
  else if (!strcmp (g, "err")) { if (!has_nul) pub = v3 (dbus_validate_error_name ((const char *) s, NULL)); in = v3 (_dbus_validate_error_name (&str, 0, n)); }
  else if (!strcmp (g, "path")) { if (!has_nul) pub = v3 (dbus_validate_path ((const char *) s, NULL)); in = v3 (_dbus_validate_path (&str, 0, n)); }
  else if (!strcmp (g, "sig")) { if (!has_nul) pub = v3 (dbus_signature_validate ((const char *) s, NULL)); in = v3 (_dbus_validate_signature_with_reason (&str, 0, n) == DBUS_VALID); }
  else if (!strcmp (g, "sig1")) { if (!has_nul) pub = v3 (dbus_signature_validate_single ((const char *) s, NULL)); }
  else if (!strcmp (g, "utf8")) { if (!has_nul) pub = v3 (dbus_validate_utf8 ((const char *) s, NULL)); in = v3 (_dbus_string_validate_utf8 (&str, 0, n)); }
  else if (!strcmp (g, "busns")) { in = v3 (_dbus_validate_bus_namespace (&str, 0, n)); }
  if (mn > 0)
    {
      DBusError e = DBUS_ERROR_INIT;
      DBusMessage *m = dbus_message_demarshal ((const char *) mb, mn, &e);
      msg = m != NULL;
      if (m) dbus_message_unref (m);
      dbus_error_free (&e);
    }
  printf ("{\"pub\":%d,\"int\":%d,\"msg\":%d}\n", pub, in, msg);
  free (s); free (mb);
}

/* ---- demarshal ---- */
static void do_demarshal (char *line)
{
  int n;
  unsigned char *b = unhex (line, &n);
  DBusError e = DBUS_ERROR_INIT;
  DBusMessage *m;
  int need = dbus_message_demarshal_bytes_needed ((const char *) b, n);
  DBusMessageLoader *ld;
  DBusString *buf;
  int lcorrupt, lmsgs = 0;
  /* the connection's loader fed the whole buffer at once */
  ld = _dbus_message_loader_new ();
  _dbus_message_loader_get_buffer (ld, &buf, NULL, NULL);
  if (!_dbus_string_append_len (buf, (const char *) b, n)) abort ();
  _dbus_message_loader_return_buffer (ld, buf);
  _dbus_message_loader_queue_messages (ld);
  lcorrupt = _dbus_message_loader_get_is_corrupted (ld);
  { DBusMessage *x; while ((x = _dbus_message_loader_pop_message (ld)) != NULL) { lmsgs++; dbus_message_unref (x); } }
  _dbus_message_loader_unref (ld);
  m = dbus_message_demarshal ((const char *) b, n, &e);
  printf ("{\"need\":%d,\"lc\":%d,\"ln\":%d,\"acc\":%d,\"ename\":", need, lcorrupt, lmsgs, m != NULL);
  put_str (dbus_error_is_set (&e) ? e.name : NULL);
  printf (",\"m\":");
  if (m)
    {
      char *out; int on;
      dump_message (m);
      /* re-marshal */
      if (dbus_message_marshal (m, &out, &on)) { printf (",\"re\":"); put_hex ((unsigned char *) out, on); dbus_free (out); }
      dbus_message_unref (m);
    }
  else
    printf ("0");
  printf ("}\n");
  dbus_error_free (&e);
  free (b);
}

/* ---- one huge array: "<elem type code char> <byte length of the array>"; the message is built here (a signal whose
 * body is a single array of zeros of that fixed-size element type), little-endian; answers whether demarshal and the
 * loader accept it */
static void do_bigarr (char *line)
{
  char elem = line[0];
  long nbytes = atol (line + 2);
  char sig[3] = { 'a', elem, 0 };
  int al = (elem == 'y') ? 1 : (elem == 'n' || elem == 'q') ? 2 : (elem == 'x' || elem == 't' || elem == 'd') ? 8 : 4;
  DBusMessage *m0 = dbus_message_new_signal ("/a", "a.b", "M"), *m;
  DBusMessageIter it, sub;
  char *hdr; int hn;
  unsigned char *b;
  long pad = (al == 8) ? 4 : 0, blen = 4 + pad + nbytes, total;
  DBusError e = DBUS_ERROR_INIT;
  DBusMessageLoader *ld; DBusString *buf; int lcorrupt, lmsgs = 0;
  dbus_uint32_t v;
  dbus_message_iter_init_append (m0, &it);
  dbus_message_iter_open_container (&it, DBUS_TYPE_ARRAY, sig + 1, &sub);
  dbus_message_iter_close_container (&it, &sub);
  dbus_message_set_serial (m0, 1);
  if (!dbus_message_marshal (m0, &hdr, &hn)) abort ();
  dbus_message_unref (m0);
  { dbus_uint32_t bl0; memcpy (&bl0, hdr + 4, 4); hn -= (int) bl0; }   /* without the empty array's body: the header, padded to 8 */
  total = hn + blen;
  b = calloc (total, 1);
  if (!b) abort ();
  memcpy (b, hdr, hn);
  dbus_free (hdr);
  v = (dbus_uint32_t) blen; memcpy (b + 4, &v, 4);          /* body length (the harness runs little-endian) */
  v = (dbus_uint32_t) nbytes; memcpy (b + hn, &v, 4);       /* array length */
  ld = _dbus_message_loader_new ();
  _dbus_message_loader_get_buffer (ld, &buf, NULL, NULL);
  if (!_dbus_string_append_len (buf, (const char *) b, total)) abort ();
  _dbus_message_loader_return_buffer (ld, buf);
  _dbus_message_loader_queue_messages (ld);
  lcorrupt = _dbus_message_loader_get_is_corrupted (ld);
  { DBusMessage *x; while ((x = _dbus_message_loader_pop_message (ld)) != NULL) { lmsgs++; dbus_message_unref (x); } }
  _dbus_message_loader_unref (ld);
  m = dbus_message_demarshal ((const char *) b, total, &e);
  printf ("{\"acc\":%d,\"lc\":%d,\"ln\":%d,\"hlen\":%d,\"blen\":%ld}\n", m != NULL, lcorrupt, lmsgs, hn, blen);
  if (m) dbus_message_unref (m);
  dbus_error_free (&e);
  free (b);
}

/* ---- chunked feeding ---- */
static void do_chunks (char *line)
{
  char *cs = strchr (line, ' ');
  int n, off = 0, first = 1;
  unsigned char *b;
  DBusMessageLoader *ld = _dbus_message_loader_new ();
  *cs++ = 0;
  b = unhex (line, &n);
  printf ("{\"steps\":[");
  while (*cs && off < n)
    {
      int k = atoi (cs);
      DBusString *buf;
      DBusMessage *x;
      int f2 = 1;
      char *c = strchr (cs, ',');
      if (k > n - off) k = n - off;
      _dbus_message_loader_get_buffer (ld, &buf, NULL, NULL);
      if (!_dbus_string_append_len (buf, (const char *) b + off, k)) abort ();
      _dbus_message_loader_return_buffer (ld, buf);
      off += k;
      _dbus_message_loader_queue_messages (ld);
      printf ("%s{\"fed\":%d,\"out\":[", first ? "" : ",", off);
      first = 0;
      while ((x = _dbus_message_loader_pop_message (ld)) != NULL)
        { printf ("%s%u", f2 ? "" : ",", dbus_message_get_serial (x)); f2 = 0; dbus_message_unref (x); }
      printf ("],\"corrupt\":%d}", _dbus_message_loader_get_is_corrupted (ld) ? 1 : 0);
      if (!c) break;
      cs = c + 1;
    }
  printf ("]}\n");
  _dbus_message_loader_unref (ld);
  free (b);
}

/* ---- header edits on a demarshalled message ----
 * ops separated by ';' :  D=<hex>|D-  (destination set / delete), S sender, P path, I interface, M member, E error name,
 *                          R=<u32> reply serial, C=<hex>|C- container instance, U strip unknown fields */
static void do_edit (char *line)
{
  char *ops = strchr (line, ' ');
  int n, first = 1;
  unsigned char *b;
  DBusError e = DBUS_ERROR_INIT;
  DBusMessage *m;
  *ops++ = 0;
  b = unhex (line, &n);
  m = dbus_message_demarshal ((const char *) b, n, &e);
  if (!m) { printf ("{\"steps\":[],\"base\":0}\n"); dbus_error_free (&e); free (b); return; }
  dbus_message_lock (m); /* as received from the wire */
  { DBusMessage *c = dbus_message_copy (m); dbus_message_unref (m); m = c; dbus_message_set_serial (m, 77); }
  printf ("{\"base\":1,\"steps\":[");
  while (ops && *ops)
    {
      char *next = strchr (ops, ';');
      char op = ops[0];
      int del, vn = 0, ok = 0;
      unsigned char *v = NULL;
      char *out; int on;
      if (next) *next++ = 0;
      del = ops[1] == '-';
      if (!del && ops[1] == '=') v = unhex (ops + 2, &vn);
      switch (op)
        {
        case 'D': ok = dbus_message_set_destination (m, del ? NULL : (char *) v); break;
        case 'S': ok = dbus_message_set_sender (m, del ? NULL : (char *) v); break;
        case 'P': ok = dbus_message_set_path (m, del ? NULL : (char *) v); break;
        case 'I': ok = dbus_message_set_interface (m, del ? NULL : (char *) v); break;
        case 'M': ok = dbus_message_set_member (m, del ? NULL : (char *) v); break;
        case 'E': ok = dbus_message_set_error_name (m, del ? NULL : (char *) v); break;
        case 'C': ok = dbus_message_set_container_instance (m, del ? NULL : (char *) v); break;
        case 'R': ok = dbus_message_set_reply_serial (m, (dbus_uint32_t) strtoul (ops + 2, NULL, 10)); break;
        case 'U': ok = _dbus_message_remove_unknown_fields (m); break;
        default: break;
        }
      printf ("%s{\"ok\":%d,\"bytes\":", first ? "" : ",", ok);
      first = 0;
      if (dbus_message_marshal (m, &out, &on)) { put_hex ((unsigned char *) out, on); dbus_free (out); } else printf ("\"\"");
      printf (",\"m\":");
      dump_message (m);
      printf ("}");
      free (v);
      ops = next;
    }
  printf ("]}\n");
  dbus_message_unref (m);
  free (b);
}

/* ---- construction programs through the public API ----
 * line: <type> <flags> <fields> <body>
 *   fields: ';'-separated P=hex I=hex M=hex E=hex D=hex S=hex R=decimal  ('-' for none)
 *   body  : sequence of values V ('-' for none)
 *   V := y HH | b 0/1 | n/q HHHH | i/u/h H8 | x/t/d H16           (little-endian hex of the value)
 *      | s<len>:<hex> | o<len>:<hex> | g<len>:<hex>
 *      | a<siglen>:<sighex>[ V* ]   | A<siglen>:<sighex>[ V* ]     (A: dbus_message_iter_append_fixed_array; '|' cuts blocks, '.'V = append_basic)
 *      | ( V* ) | { V V } | v<siglen>:<sighex> V
 */
static const char *bp;
static int num (void) { int n = 0; while (*bp >= '0' && *bp <= '9') n = n * 10 + (*bp++ - '0'); return n; }
static char *hexn (int n) { char *r = malloc (n + 1); int i; for (i = 0; i < n; i++) { r[i] = (char) (hexv (bp[0]) * 16 + hexv (bp[1])); bp += 2; } r[n] = 0; return r; }
static int build_value (DBusMessageIter *it)
{
  char c = *bp++;
  switch (c)
    {
    case 'y': { unsigned char v = (unsigned char) (hexv (bp[0]) * 16 + hexv (bp[1])); bp += 2; return dbus_message_iter_append_basic (it, DBUS_TYPE_BYTE, &v); }
    case 'b': { dbus_bool_t v = *bp++ == '1'; return dbus_message_iter_append_basic (it, DBUS_TYPE_BOOLEAN, &v); }
    case 'n': case 'q': { char *h = hexn (2); dbus_uint16_t v; int r; memcpy (&v, h, 2); free (h); r = dbus_message_iter_append_basic (it, c, &v); return r; }
    case 'i': case 'u': case 'h': { char *h = hexn (4); dbus_uint32_t v; memcpy (&v, h, 4); free (h); return dbus_message_iter_append_basic (it, c, &v); }
    case 'x': case 't': case 'd': { char *h = hexn (8); dbus_uint64_t v; memcpy (&v, h, 8); free (h); return dbus_message_iter_append_basic (it, c, &v); }
    case 's': case 'o': case 'g': { int n = num (); char *v; int r; bp++; v = hexn (n); r = dbus_message_iter_append_basic (it, c, &v); free (v); return r; }
    case 'a': case 'A':
      { int n = num (); char *sig; DBusMessageIter sub; bp++; sig = hexn (n);
        if (!dbus_message_iter_open_container (it, DBUS_TYPE_ARRAY, sig, &sub)) return 0;
        bp++; /* [ */
        if (c == 'A')
          { /* collect fixed-size elements and append them in one go */
            unsigned char buf[4096]; int used = 0, cnt = 0, sz = (sig[0] == 'y') ? 1 : (sig[0] == 'n' || sig[0] == 'q') ? 2 : (sig[0] == 'x' || sig[0] == 't' || sig[0] == 'd') ? 8 : 4;
            const void *pp = buf;
            /* '|' between elements: what has been collected goes out as one block now (an array may be filled by several
             * append_fixed_array calls); '.' before an element: that one is appended with append_basic */
            while (*bp != ']')
              {
                if (*bp == '|' || *bp == '.')
                  {
                    int basic = *bp++ == '.';
                    if (cnt > 0 && !dbus_message_iter_append_fixed_array (&sub, sig[0], &pp, cnt)) return 0;
                    used = cnt = 0;
                    if (basic && !build_value (&sub)) return 0;
                    continue;
                  }
                bp++; if (sig[0] == 'b') { dbus_bool_t v = *bp++ == '1'; memcpy (buf + used, &v, 4); } else { char *h = hexn (sz); memcpy (buf + used, h, sz); free (h); } used += sz; cnt++; }
            if (cnt > 0 && !dbus_message_iter_append_fixed_array (&sub, sig[0], &pp, cnt)) return 0;
          }
        else
          while (*bp != ']') if (!build_value (&sub)) return 0;
        bp++;
        free (sig);
        return dbus_message_iter_close_container (it, &sub); }
    case '(':
      { DBusMessageIter sub; if (!dbus_message_iter_open_container (it, DBUS_TYPE_STRUCT, NULL, &sub)) return 0;
        while (*bp != ')') if (!build_value (&sub)) return 0;
        bp++; return dbus_message_iter_close_container (it, &sub); }
    case '{':
      { DBusMessageIter sub; if (!dbus_message_iter_open_container (it, DBUS_TYPE_DICT_ENTRY, NULL, &sub)) return 0;
        while (*bp != '}') if (!build_value (&sub)) return 0;
        bp++; return dbus_message_iter_close_container (it, &sub); }
    case 'v':
      { int n = num (); char *sig; DBusMessageIter sub; int r; bp++; sig = hexn (n);
        if (!dbus_message_iter_open_container (it, DBUS_TYPE_VARIANT, sig, &sub)) return 0;
        r = build_value (&sub); free (sig);
        return r && dbus_message_iter_close_container (it, &sub); }
    default: return 0;
    }
}
static void do_build (char *line)
{
  int ty, fl;
  char *f, *body, *tok;
  DBusMessage *m, *c;
  DBusMessageIter it;
  char *out; int on;
  ty = atoi (line); line = strchr (line, ' ') + 1;
  fl = atoi (line); line = strchr (line, ' ') + 1;
  f = line; body = strchr (line, ' '); *body++ = 0;
  m = dbus_message_new (ty);
  dbus_message_set_no_reply (m, fl & 1);
  dbus_message_set_auto_start (m, !(fl & 2));
  dbus_message_set_allow_interactive_authorization (m, (fl & 4) != 0);
  for (tok = strtok (f, ";"); tok; tok = strtok (NULL, ";"))
    {
      int n; unsigned char *v;
      if (tok[0] == '-') break;
      if (tok[0] == 'R') { dbus_message_set_reply_serial (m, (dbus_uint32_t) strtoul (tok + 2, NULL, 10)); continue; }
      v = unhex (tok + 2, &n);
      switch (tok[0])
        {
        case 'P': dbus_message_set_path (m, (char *) v); break;
        case 'I': dbus_message_set_interface (m, (char *) v); break;
        case 'M': dbus_message_set_member (m, (char *) v); break;
        case 'E': dbus_message_set_error_name (m, (char *) v); break;
        case 'D': dbus_message_set_destination (m, (char *) v); break;
        case 'S': dbus_message_set_sender (m, (char *) v); break;
        }
      free (v);
    }
  dbus_message_iter_init_append (m, &it);
  bp = body;
  if (*bp != '-')
    while (*bp) if (!build_value (&it)) { printf ("{\"built\":0}\n"); dbus_message_unref (m); return; }
  dbus_message_set_serial (m, 0x01020304);
  printf ("{\"built\":1,\"bytes\":");
  if (!dbus_message_marshal (m, &out, &on)) abort ();
  put_hex ((unsigned char *) out, on);
  printf (",\"m\":"); dump_message (m);
  c = dbus_message_copy (m);
  printf (",\"copy\":"); dump_message (c);
  dbus_message_unref (c);
  {
    DBusError e = DBUS_ERROR_INIT;
    DBusMessage *d = dbus_message_demarshal (out, on, &e);
    printf (",\"dem\":%d", d != NULL);
    if (d)
      {
        char *o2; int n2;
        printf (",\"dm\":"); dump_message (d);
        if (dbus_message_marshal (d, &o2, &n2)) { printf (",\"re\":"); put_hex ((unsigned char *) o2, n2); dbus_free (o2); }
        dbus_message_unref (d);
      }
    dbus_error_free (&e);
  }
  dbus_free (out);
  printf ("}\n");
  dbus_message_unref (m);
}

int main (int argc, char **argv)
{
  static char line[1 << 22];
  if (argc < 2) return 2;
  setvbuf (stdout, NULL, _IOFBF, 1 << 16);
  while (fgets (line, sizeof line, stdin))
    {
      size_t l = strlen (line);
      while (l && (line[l - 1] == '\n' || line[l - 1] == '\r')) line[--l] = 0;
      if (!l) continue;
      if (!strcmp (argv[1], "syntax")) do_syntax (line);
      else if (!strcmp (argv[1], "demarshal")) do_demarshal (line);
      else if (!strcmp (argv[1], "chunks")) do_chunks (line);
      else if (!strcmp (argv[1], "bigarr")) do_bigarr (line);
      else if (!strcmp (argv[1], "edit")) do_edit (line);
      else if (!strcmp (argv[1], "build")) do_build (line);
      fflush (stdout);
    }
  dbus_shutdown ();
  return 0;
}

"""Cases for the activation helper (dbus-daemon-launch-helper-for-tests): generated service directories and name
arguments; records the helper's exit code and the argument vector it executed (through harness/c/argdump)."""
import os
import shutil
import subprocess
import tempfile

GOODNAMES = [b'com.example.S1', b'a.b', b'org.x_y.Z-1', b'com.example.S1.Sub', b'A.B.C']
BADNAMES = [b'', b'nodot', b'.a.b', b'a..b', b'a.b.', b'1a.b', b'a.1b', b'a b.c', b'a/b.c', b'com.example.S1 ', b':1.5',
            b'a.b\n', b'com.example.\xc3\xa9', b'a.' + b'b' * 254, b'a.' + b'b' * 253, b'-a.b', b'a.-b', b'../../etc/passwd',
            b'com.example.S1.service', b'*.b', b'a.b;c', b'$HOME.x']
SEC = b'[D-BUS Service]'
TAILS = [b'', b'a b', b"'a b' c", b'"a b" c', b'a\\ b', b'"a\\"b"', b"'a'\\''b'", b'a "" b', b"'' x", b'a  b', b'a\tb', b'a b ', b'a #c d',
         b'#c', b'a\\\\b', b'"a\\\\b"', b'"$x `y`"', b'"a\\$b"', b'a\\nb', b'a\\sb', b'a\\tb', b'"a\\nb"', b"'a\\nb'", b'a\\\\\\nb',
         b'"unclosed', b"'unclosed", b'a\\', b'"a\\', b'a"b"c', b"a'b'\"c\"", b'\xc3\xa9 x', b'--opt=1 -- -x', b'a"b c', b"a 'b",
         b'"a\\\\" b', b'"a\\\\\\" b"', b'x\\ ', b'"\\a"', b"'\\a'", b'\\a', b'a\\\\', b'"a b"c\\ d e']


def service_file(rng, name, argdump, out):
    """bytes of one service file for `name` (possibly defective)"""
    nm = name
    r = rng.random()
    if r < 0.18:
        nm = rng.choice([name + b' ', name.upper(), name[:-1], name + b'.x', b'other.name', b' ' + name, name + b'\\s', b''])
    tail = rng.choice(TAILS)
    prog = argdump
    r = rng.random()
    if r < 0.06:
        prog = b'/nonexistent/verif-argdump'
    elif r < 0.1:
        prog = b'argdump'                      # relative: execv does not search PATH
    elif r < 0.14:
        prog = b"'" + argdump + b"'"
    elif r < 0.18:
        prog = b'"' + argdump + b'"'
    exe = prog + b' ' + out + (b' ' + tail if tail else b'')
    lines = [(b'Name', nm), (b'Exec', exe), (b'User', b'root')]
    r = rng.random()
    if r < 0.1:
        lines.pop(rng.randrange(3))                                      # a key missing
    elif r < 0.16:
        k = rng.randrange(3)
        # duplicate key: first wins (the lines may be shuffled below, so either may come first: a variant of the Exec line
        # keeps the output path intact -- an extra argument, not a longer path -- or the recorder would miss the run)
        lines.insert(k + 1, (lines[k][0], rng.choice([b'second', lines[k][1] + (b' x' if lines[k][0] == b'Exec' else b'x')])))
    elif r < 0.2:
        k = rng.randrange(3)
        lines.insert(k, (lines[k][0] + b'[de]', b'localised'))           # Key[locale] lines are ignored
    rng.shuffle(lines) if rng.random() < 0.3 else None
    eol = b'\r\n' if rng.random() < 0.08 else b'\n'
    eq = rng.choice([b'=', b'=', b'=', b' = ', b' =', b'= ', b'  =  '])
    body = []
    for k, v in lines:
        body.append(k + eq + v)
        if rng.random() < 0.1:
            body.append(rng.choice([b'# comment', b'', b'   ', b'\t']))
    head = [SEC]
    r = rng.random()
    if r < 0.05:
        head = [b'[Other]', b'Name=wrong', SEC]
    elif r < 0.1:
        head = [SEC, b'[D-BUS Service]']                                 # keys land in the second, lookup uses the first
    elif r < 0.14:
        head = [b'# leading comment', b'', SEC]
    elif r < 0.17:
        head = [b'[D-BUS Service ]']                                     # another section name
    data = eol.join(head + body) + (eol if rng.random() < 0.9 else b'')
    r = rng.random()
    if r < 0.04:
        data = eol.join(body) + eol                                      # no section header at all
    elif r < 0.07:
        data = data.replace(b'[D-BUS Service]', b'[D-BUS Service', 1)    # broken section line
    elif r < 0.1:
        data = data.replace(b'Exec', b'Ex ec', 1)                        # invalid characters in key name
    elif r < 0.13:
        data = data.replace(b'User', b'Us\\er=x\nUser', 1) if rng.random() < 0.5 else data + b'Key\n'   # no '='
    elif r < 0.16:
        data = data + b'X=bad\\q escape' + eol                           # invalid escape sequence
    elif r < 0.18:
        data = data + b'X=\xff\xfe' + eol                                # not UTF-8
    elif r < 0.2:
        data = data + b'=v' + eol                                        # empty key
    elif r < 0.22:
        data = data + b'[]' + eol
    elif r < 0.24:
        data = data + b'[a[b]' + eol
    return data


def gen_case(rng, argdump, out):
    """-> (name, dirs) ; dirs: list of {fname: content}"""
    r = rng.random()
    if r < 0.2:
        name = rng.choice(BADNAMES)
    else:
        name = rng.choice(GOODNAMES)
    ndirs = rng.choice([1, 2, 2, 3])
    dirs = []
    for _ in range(ndirs):
        d = {}
        for cand in ([name] if name and b'/' not in name and len(name) < 200 else []) + rng.sample(GOODNAMES, 2):
            if rng.random() < (0.75 if cand == name else 0.3):
                d[cand + b'.service'] = service_file(rng, cand, argdump, out)
        dirs.append(d)
    return name, dirs


def run_cases(build, rng, n):
    helper = os.path.join(build, 'bin', 'dbus-daemon-launch-helper-for-tests')
    from daemon import harness_bin
    argdump = harness_bin(build, 'argdump').encode()
    top = tempfile.mkdtemp(prefix='vh-', dir=os.environ.get('VERIF_TMP', '/tmp'))
    cases = []
    try:
        out = os.path.join(top, 'out').encode()
        env = {'TEST_LAUNCH_HELPER_CONFIG': os.path.join(top, 'conf'), 'LD_LIBRARY_PATH': os.path.join(build, 'lib'),
               'ASAN_OPTIONS': 'detect_leaks=0:abort_on_error=1', 'UBSAN_OPTIONS': 'print_stacktrace=1:halt_on_error=1', 'PATH': '/nonexistent'}
        for i in range(n):
            name, dirs = gen_case(rng, argdump, out)
            paths = []
            for k, d in enumerate(dirs):
                p = os.path.join(top, 'd%d' % k)
                shutil.rmtree(p, ignore_errors=True)
                os.mkdir(p)
                for fn, content in d.items():
                    with open(os.path.join(p.encode(), fn), 'wb') as f:
                        f.write(content)
                paths.append(p)
            with open(os.path.join(top, 'conf'), 'w') as f:
                f.write('<busconfig>\n<user>root</user>\n<type>system</type>\n<listen>unix:path=/nonexistent/verif</listen>\n'
                        + ''.join('<servicedir>%s</servicedir>\n' % p for p in paths) + '</busconfig>\n')
            try:
                os.unlink(out)
            except OSError:
                pass
            try:
                pr = subprocess.run([helper.encode(), name], env=env, stdout=subprocess.PIPE, stderr=subprocess.PIPE, timeout=20, cwd=top)
                code, err = pr.returncode, pr.stderr.decode('latin-1')[-1500:]
            except subprocess.TimeoutExpired:
                code, err = -999, 'timeout'
            except ValueError:
                continue          # embedded NUL etc.: cannot be passed as an argument at all
            ran, argv = 0, []
            if os.path.exists(out):
                ran = 1
                argv = [list(bytes.fromhex(ln)) for ln in open(out).read().split('\n')[:-1]]
            cases.append({'k': 'helper', 'name': list(name), 'execs': [list(argdump)],
                          'dirs': [[{'fname': list(fn), 'content': list(c)} for fn, c in sorted(d.items())] for d in dirs],
                          'code': code, 'ran': ran, 'argv': argv, '_err': err if code not in range(0, 12) else ''})
    finally:
        shutil.rmtree(top, ignore_errors=True)
    return cases

"""Independent raw D-Bus wire code used by the drivers: a marshaller, a demarshaller and a SASL client.

It is a *generator and recorder* only: nothing here decides a property.  Values are python objects:
  y n q i u x t h -> int ; b -> bool ; d -> float ; s o g -> str (or bytes for deliberately odd text)
  a<T> -> list ; a{KV} -> list of (k, v) tuples ; (..) -> tuple ; v -> (sig, value)
"""
import os
import socket
import struct
import array

ALIGN = {'y': 1, 'b': 4, 'n': 2, 'q': 2, 'i': 4, 'u': 4, 'x': 8, 't': 8, 'd': 8, 'h': 4,
         's': 4, 'o': 4, 'g': 1, 'a': 4, '(': 8, '{': 8, 'v': 1}
FIXED = {'y': 'B', 'n': 'h', 'q': 'H', 'i': 'i', 'u': 'I', 'x': 'q', 't': 'Q', 'd': 'd', 'h': 'I'}

METHOD_CALL, METHOD_RETURN, ERROR, SIGNAL = 1, 2, 3, 4
F_PATH, F_INTERFACE, F_MEMBER, F_ERROR_NAME, F_REPLY_SERIAL, F_DESTINATION, F_SENDER, F_SIGNATURE, \
    F_UNIX_FDS, F_CONTAINER_INSTANCE = 1, 2, 3, 4, 5, 6, 7, 8, 9, 10
FIELD_SIG = {1: 'o', 2: 's', 3: 's', 4: 's', 5: 'u', 6: 's', 7: 's', 8: 'g', 9: 'u', 10: 'o'}
FLAG_NO_REPLY, FLAG_NO_AUTO_START = 1, 2


def sig_end(sig, i):
    """index just after the single complete type starting at sig[i]"""
    c = sig[i]
    if c == 'a':
        return sig_end(sig, i + 1)
    if c in '({':
        close = ')' if c == '(' else '}'
        j = i + 1
        while sig[j] != close:
            j = sig_end(sig, j)
        return j + 1
    return i + 1


def split_sig(sig):
    out, i = [], 0
    while i < len(sig):
        j = sig_end(sig, i)
        out.append(sig[i:j])
        i = j
    return out


def _b(x):
    return x if isinstance(x, (bytes, bytearray)) else x.encode('utf-8', 'surrogateescape')


class Enc:
    def __init__(self, le=True, start=0):
        self.le = le
        self.e = '<' if le else '>'
        self.buf = bytearray()
        self.start = start  # virtual offset of buf[0]
        self.sites = []     # (offset in buf, kind) of places worth corrupting

    def pos(self):
        return self.start + len(self.buf)

    def pad(self, a):
        while self.pos() % a:
            self.sites.append((len(self.buf), 'pad'))
            self.buf.append(0)

    def put(self, sig, val):
        c = sig[0]
        if c in FIXED:
            self.pad(ALIGN[c])
            self.buf += struct.pack(self.e + FIXED[c], val)
        elif c == 'b':
            self.pad(4)
            self.sites.append((len(self.buf), 'bool'))
            self.buf += struct.pack(self.e + 'I', int(val))
        elif c in 'so':
            v = _b(val)
            self.pad(4)
            self.sites.append((len(self.buf), 'len32'))
            if v:
                self.sites.append((len(self.buf) + 4, 'text'))
                self.sites.append((len(self.buf) + 4 + len(v) // 2, 'text'))
                self.sites.append((len(self.buf) + 4 + len(v) - 1, 'text'))
            self.sites.append((len(self.buf) + 4 + len(v), 'nul'))
            self.buf += struct.pack(self.e + 'I', len(v)) + v + b'\0'
        elif c == 'g':
            v = _b(val)
            self.sites.append((len(self.buf), 'len8'))
            for k in range(len(v)):
                self.sites.append((len(self.buf) + 1 + k, 'sigchar'))
            self.sites.append((len(self.buf) + 1 + len(v), 'nul'))
            self.buf += bytes([len(v)]) + v + b'\0'
        elif c == 'v':
            vs, vv = val
            self.put('g', vs)
            self.put(vs, vv)
        elif c == 'a':
            es = sig[1:]
            self.pad(4)
            lp = len(self.buf)
            self.sites.append((lp, 'len32'))
            self.buf += b'\0\0\0\0'
            self.pad(ALIGN[es[0]])
            s0 = len(self.buf)
            for x in val:
                self.put(es, x)
            struct.pack_into(self.e + 'I', self.buf, lp, len(self.buf) - s0)
        elif c in '({':
            self.pad(8)
            for s, x in zip(split_sig(sig[1:-1]), val):
                self.put(s, x)
        else:
            raise ValueError('bad type ' + c)


def marshal_body(sig, vals, le=True, sites=None):
    e = Enc(le)
    for s, v in zip(split_sig(sig), vals):
        e.put(s, v)
    if sites is not None:
        sites.extend(e.sites)
    return bytes(e.buf)


def build_message(mtype, serial, fields=None, sig='', body=(), flags=0, le=True, raw_fields=None,
                  nfds=None, body_bytes=None, version=1, sites=None, raw_first=False):
    """fields: dict code -> value (typed per FIELD_SIG); raw_fields: list of (code, sig, value) appended
    after (forged / unknown fields). Field order: as given in `fields` (dict order), then raw_fields."""
    bsites = []
    if body_bytes is None:
        body_bytes = marshal_body(sig, body, le, bsites)
    fl = []
    if raw_first:
        for code, s, v in (raw_fields or []):
            fl.append((code, s, v))
        raw_fields = []
    for code, v in (fields or {}).items():
        fl.append((code, FIELD_SIG[code], v))
    if sig:
        fl.append((F_SIGNATURE, 'g', sig))
    if nfds is not None:
        fl.append((F_UNIX_FDS, 'u', nfds))
    for code, s, v in (raw_fields or []):
        fl.append((code, s, v))
    e = Enc(le)
    e.buf += (b'l' if le else b'B') + bytes([mtype, flags, version])
    e.buf += struct.pack(e.e + 'II', len(body_bytes), serial)
    e.put('a(yv)', [(c, (s, v)) for c, s, v in fl])
    e.pad(8)
    if sites is not None:
        sites.extend([(0, 'endian'), (1, 'type'), (2, 'flags'), (3, 'version'), (4, 'len32'), (8, 'serial')])
        sites.extend(e.sites)
        sites.extend((off + len(e.buf), k) for off, k in bsites)
    return bytes(e.buf) + body_bytes


class DecodeError(Exception):
    pass


class Dec:
    def __init__(self, data, le=True, pos=0):
        self.d = data
        self.le = le
        self.e = '<' if le else '>'
        self.p = pos
        self.dirty = False      # some alignment padding byte was not zero

    def pad(self, a):
        while self.p % a:
            if self.p < len(self.d) and self.d[self.p] != 0:
                self.dirty = True
            self.p += 1

    def get(self, sig):
        c = sig[0]
        if c in FIXED:
            self.pad(ALIGN[c])
            n = struct.calcsize(FIXED[c])
            v = struct.unpack_from(self.e + FIXED[c], self.d, self.p)[0]
            self.p += n
            return v
        if c == 'b':
            self.pad(4)
            v = struct.unpack_from(self.e + 'I', self.d, self.p)[0]
            self.p += 4
            return bool(v)
        if c in 'so':
            self.pad(4)
            n = struct.unpack_from(self.e + 'I', self.d, self.p)[0]
            self.p += 4
            v = bytes(self.d[self.p:self.p + n])
            self.p += n + 1
            return v.decode('utf-8', 'surrogateescape')
        if c == 'g':
            n = self.d[self.p]
            self.p += 1
            v = bytes(self.d[self.p:self.p + n])
            self.p += n + 1
            return v.decode('latin-1')
        if c == 'v':
            vs = self.get('g')
            return (vs, self.get(vs))
        if c == 'a':
            es = sig[1:]
            self.pad(4)
            n = struct.unpack_from(self.e + 'I', self.d, self.p)[0]
            self.p += 4
            self.pad(ALIGN[es[0]])
            end = self.p + n
            out = []
            while self.p < end:
                p0 = self.p
                out.append(self.get(es))
                if self.p <= p0 or self.p > len(self.d):
                    raise ValueError('malformed array (element of no size, or running past the data)')
            return out
        if c in '({':
            self.pad(8)
            return tuple(self.get(s) for s in split_sig(sig[1:-1]))
        raise DecodeError('bad type ' + c)


class Msg:
    __slots__ = ('le', 'type', 'flags', 'serial', 'fields', 'raw_fields', 'sig', 'body', 'nbytes', 'fds', 'dirty', 'braw')

    def f(self, code, default=None):
        return self.fields.get(code, default)

    def __repr__(self):
        return 'Msg(t=%d serial=%d %r %r)' % (self.type, self.serial, self.fields, self.body)


def message_length(hdr16):
    """total length of the message whose first 16 bytes are given"""
    le = hdr16[0:1] == b'l'
    e = '<' if le else '>'
    blen, _serial, flen = struct.unpack_from(e + 'III', hdr16, 4)
    return 16 + ((flen + 7) & ~7) + blen


def parse_message(data):
    m = Msg()
    le = data[0:1] == b'l'
    m.le = le
    m.type, m.flags = data[1], data[2]
    e = '<' if le else '>'
    blen, m.serial = struct.unpack_from(e + 'II', data, 4)
    d = Dec(data, le, 12)
    fl = d.get('a(yv)')
    d.pad(8)
    m.fields = {}
    m.raw_fields = []
    for code, (s, v) in fl:
        m.raw_fields.append((code, s, v))
        m.fields[code] = v
    m.sig = m.fields.get(F_SIGNATURE, '')
    m.braw = bytes(data[d.p:d.p + blen])
    body = Dec(data[d.p:d.p + blen], le, 0)
    m.body = [body.get(s) for s in split_sig(m.sig)]
    m.dirty = d.dirty or body.dirty or body.p != blen
    m.nbytes = d.p + blen
    m.fds = []
    return m


# ----------------------------------------------------------------------------------------------
class Conn:
    """A raw client connection: SASL EXTERNAL handshake, then framed messages."""

    def __init__(self, path, uid=None, negotiate_fds=False, auth=True, abstract=False, timeout=10.0, gids=None):
        self.s = socket.socket(socket.AF_UNIX, socket.SOCK_STREAM)
        self.s.settimeout(timeout)
        self.rbuf = bytearray()
        self.rfds = []
        self.serial = 0
        self.eof = False
        self.unique = None
        self.fd_ok = False
        addr = ('\0' + path) if abstract else path
        if uid is not None and uid != os.geteuid():
            # SO_PEERCRED reports the effective uid at connect() time
            # ... and SO_PEERGROUPS the supplementary groups (the bus adds the effective gid and sorts)
            if gids:
                os.setgroups([g for g in gids if g != uid])
            os.setegid(uid if uid != 65534 else 65534)
            os.seteuid(uid)
            try:
                self.s.connect(addr)
            finally:
                os.seteuid(0)
                os.setegid(0)
                if gids:
                    os.setgroups([])
            self.uid = uid
        else:
            self.s.connect(addr)
            self.uid = os.geteuid()
        if auth:
            self.auth(negotiate_fds)

    def auth(self, negotiate_fds=False):
        self.s.sendall(b'\0AUTH EXTERNAL ' + str(self.uid).encode().hex().encode() + b'\r\n')
        line = self._readline()
        if not line.startswith(b'OK'):
            raise IOError('auth failed: %r' % line)
        if negotiate_fds:
            self.s.sendall(b'NEGOTIATE_UNIX_FD\r\n')
            line = self._readline()
            self.fd_ok = line.startswith(b'AGREE_UNIX_FD')
        self.s.sendall(b'BEGIN\r\n')

    def _readline(self):
        while b'\r\n' not in self.rbuf:
            d = self.s.recv(4096)
            if not d:
                raise IOError('EOF during auth')
            self.rbuf += d
        i = self.rbuf.index(b'\r\n')
        line = bytes(self.rbuf[:i])
        del self.rbuf[:i + 2]
        return line

    def next_serial(self):
        self.serial += 1
        return self.serial

    def send_raw(self, data, fds=None):
        if getattr(self, 'holding', None) is not None and not fds:
            self.holding += data          # written in one piece later (flush_held)
            return True
        try:
            self.s.settimeout(10.0)      # (reads set their own, much shorter, timeouts)
            if fds:
                # descriptors travel with the first byte; a large message needs more than one write
                n = self.s.sendmsg([data], [(socket.SOL_SOCKET, socket.SCM_RIGHTS, array.array('i', fds))])
                if n < len(data):
                    self.s.sendall(data[n:])
            else:
                self.s.sendall(data)
            return True
        except (BrokenPipeError, ConnectionResetError):
            return False          # the daemon has hung up: what is written from now on is never read
        except OSError as e:
            import sys
            sys.stderr.write('send_raw: %r (%d bytes, %d fds)\n' % (e, len(data), len(fds or [])))
            self.send_errors = getattr(self, 'send_errors', 0) + 1
            return False

    def flush_held(self):
        h, self.holding = getattr(self, 'holding', None), None
        if h:
            self.s.settimeout(10.0)
            try:
                self.s.sendall(bytes(h))
            except OSError:
                pass

    def send(self, mtype, fields=None, sig='', body=(), flags=0, serial=None, **kw):
        if serial is None:
            serial = self.next_serial()
        fds = kw.pop('fds', None)
        data = build_message(mtype, serial, fields, sig, body, flags, **kw)
        self.send_raw(data, fds)
        return serial

    def call(self, dest, path, iface, member, sig='', body=(), flags=0, **kw):
        f = {F_PATH: path, F_MEMBER: member}
        if iface is not None:
            f[F_INTERFACE] = iface
        if dest is not None:
            f[F_DESTINATION] = dest
        return self.send(METHOD_CALL, f, sig, body, flags, **kw)

    def bus_call(self, member, sig='', body=(), iface='org.freedesktop.DBus', **kw):
        return self.call('org.freedesktop.DBus', '/org/freedesktop/DBus', iface, member, sig, body, **kw)

    def _fill(self, timeout):
        """read once; returns False on timeout, sets eof"""
        self.s.settimeout(timeout)
        try:
            d, anc, _fl, _a = self.s.recvmsg(65536, socket.CMSG_SPACE(64 * 4))
        except socket.timeout:
            return False
        except (ConnectionResetError, OSError):
            self.eof = True
            return True
        for lvl, typ, cd in anc:
            if lvl == socket.SOL_SOCKET and typ == socket.SCM_RIGHTS:
                a = array.array('i')
                a.frombytes(cd[:len(cd) - (len(cd) % 4)])
                self.rfds.extend(a)
        if not d:
            self.eof = True
        self.rbuf += d
        return True

    def _pop(self):
        if len(self.rbuf) < 16:
            return None
        n = message_length(self.rbuf[:16])
        if len(self.rbuf) < n:
            return None
        m = parse_message(bytes(self.rbuf[:n]))
        del self.rbuf[:n]
        nf = m.fields.get(F_UNIX_FDS, 0)
        m.fds = self.rfds[:nf]
        del self.rfds[:nf]
        if self.rfds and not self.rbuf:
            # descriptors beyond what the message announces, with nothing further read that they could belong to:
            # they came with this message (reported with it, so that the surplus is visible)
            m.fds += self.rfds
            del self.rfds[:]
        return m

    def recv(self, timeout=5.0):
        """next message, or None on timeout / EOF (check .eof)"""
        while True:
            m = self._pop()
            if m is not None:
                return m
            if self.eof:
                return None
            if not self._fill(timeout):
                return None

    def recv_until_reply(self, serial, timeout=5.0, sender_is_bus=False):
        """collect messages until the reply to `serial` arrives (inclusive). returns (list, found)"""
        out = []
        while True:
            m = self.recv(timeout)
            if m is None:
                return out, False
            out.append(m)
            if m.type in (METHOD_RETURN, ERROR) and m.f(F_REPLY_SERIAL) == serial:
                return out, True

    def hello(self):
        s = self.bus_call('Hello')
        msgs, ok = self.recv_until_reply(s)
        if ok and msgs[-1].type == METHOD_RETURN:
            self.unique = msgs[-1].body[0]
        return msgs

    def close(self):
        try:
            self.s.close()
        except OSError:
            pass
        for fd in self.rfds:
            try:
                os.close(fd)
            except OSError:
                pass
        self.rfds = []

"""General scenario generator for the bus: names, match rules, routed messages, replies, forged headers.
The generator predicts nothing; it only keeps enough book-keeping (who called whom with which serial) to
produce *interesting* follow-ups (genuine, duplicate, bogus replies ...).  Placeholders: a destination
{"slot": k} is replaced by slot k's unique name when the op is written; "{uK}" inside rule text likewise."""
import random

NAMES = ['com.example.A', 'com.example.B', 'com.example.A.Sub']
IFACES = ['com.example.I', 'com.example.J', 'com.example.I.K']
MEMBERS = ['Ma', 'Mb']
PATHS = ['/', '/a', '/a/b', '/a/bc', '/ab']
FOCUS_STRS = ['com.example', 'com.example.A', 'com', '/a/', '/a/b', '/a', '/']
STRS = ['', 'x', 'com.example', 'com.example.A', 'com.example.Ab', '/a/', '/a/b', '/a', '/', 'a\'b', 'a\\b', 'a,b', ' ']
ERRS = ['com.example.Err', 'org.freedesktop.DBus.Error.Failed']
NOC_RULE = "type='signal',sender='org.freedesktop.DBus',interface='org.freedesktop.DBus',member='NameOwnerChanged'"


def q(v, rng):
    """quote a rule value in one of the forms of the grammar"""
    form = rng.random()
    if "'" in v:
        return "'" + v.replace("'", "'\\''") + "'"
    if form < 0.7 or ',' in v or v == '' or v.startswith(' ') or v.endswith(' '):
        return "'" + v + "'"
    if form < 0.85 and '\\' not in v:
        return v
    if len(v) >= 2:
        k = rng.randrange(1, len(v))
        return "'" + v[:k] + "'" + "'" + v[k:] + "'"
    return "'" + v + "'"


class Gen:
    def __init__(self, rng, nslots=3, nnames=2, uids=(0,), w=None, cfg=None, odd_rules=0.1, forge=0.0,
                 eavesdrop=0.0, fresh=None):
        self.rng = rng
        self.slots = list(range(1, nslots + 1))
        self.names = NAMES[:nnames]
        self.uids = list(uids)
        self.cfg = dict(cfg or {})
        self.w = {'req': 2, 'rel': 1, 'query': 1, 'addmatch': 2, 'rmmatch': 1, 'signal': 3, 'call': 3, 'reply': 3,
                  'usignal': 1, 'close': 0.3, 'driver_other': 0.3, 'nodest': 0.2}
        self.w.update(w or {})
        self.connected = {}
        self.rulesof = {s: [] for s in self.slots}
        self.calls = []       # (caller, callee_hint(name or {"slot"}), ser)
        self.ser = {s: 1000 for s in self.slots}
        self.odd_rules = odd_rules
        self.forge = forge
        self.eavesdrop = eavesdrop
        self.rounds = []
        self.tok = 0
        self.monitors = set()
        self.speak = 0.08
        self.fdcap = 0.0
        self.argfocus = 0.0

    # ---- pieces
    def connect_ops(self, s, sub=True):
        u = self.rng.choice(self.uids)
        self.connected[s] = u
        ops = [{'k': 'connect', 'uid': u, 'fdcap': self.rng.random() < self.fdcap}, {'k': 'hello'}]
        if sub:
            ops.append({'k': 'addmatch', 'rule': NOC_RULE})
            self.rulesof[s] = [NOC_RULE]
        return ops

    def rule(self):
        rng = self.rng
        if rng.random() < self.argfocus:
            # several argument keys of different kinds in one rule, values on the prefix / namespace boundaries
            keys = ["type='signal'"] if rng.random() < 0.5 else []
            kinds = [rng.choice(['', 'path', 'path', 'namespace']) for _ in range(3)]
            for i in range(3):
                if rng.random() < 0.25:
                    continue
                k = kinds[i] if (i == 0 or kinds[i] != 'namespace') else ''
                v = rng.choice(['com.example', 'com'] if k == 'namespace' else FOCUS_STRS)
                keys.append('arg%d%s=' % (i, k) + q(v, rng))
            rng.shuffle(keys)
            return ','.join(keys) or "type='signal'"
        if rng.random() < self.odd_rules:
            return rng.choice(["type='signal", "foo='bar'", "type='signal',type='signal'", "type='sig'",
                               "interface='nodots'", "member='a.b'", "path='a'", "path='/a',path_namespace='/a'",
                               "arg64='x'", "arg0='x',arg0path='y'", "arg1namespace='a.b'", "arg0namespace='a..b'",
                               "sender='..'", "destination=''", "eavesdrop='yes'", "type=signal,,", "arg='x'",
                               "arg0x='y'", "type", "=x", "x" * 1025, "type='signal'," + "a" * 1010,
                               "arg0=" + "'" * 3, "path_namespace='/a/'", "arg0namespace=''"])
        keys = []
        if rng.random() < 0.5:
            keys.append('type=' + q(rng.choice(['signal', 'signal', 'method_call', 'method_return', 'error']), rng))
        if rng.random() < 0.3:
            snd = rng.choice(self.names + ['{u%d}' % rng.choice(self.slots), 'org.freedesktop.DBus'])
            keys.append('sender=' + q(snd, rng))
        if rng.random() < 0.4:
            keys.append('interface=' + q(rng.choice(IFACES), rng))
        if rng.random() < 0.3:
            keys.append('member=' + q(rng.choice(MEMBERS), rng))
        r = rng.random()
        if r < 0.2:
            keys.append('path=' + q(rng.choice(PATHS), rng))
        elif r < 0.4:
            keys.append('path_namespace=' + q(rng.choice(PATHS), rng))
        if rng.random() < 0.15:
            keys.append('destination=' + q(rng.choice(self.names + ['{u%d}' % rng.choice(self.slots)]), rng))
        # up to three argument keys on different indices, of mixed kinds (exact / path / namespace)
        used = set()
        for _ in range(0 if rng.random() >= 0.5 else rng.choice([1, 1, 1, 2, 2, 3])):
            i = rng.choice([0, 0, 1, 1, 2])
            if i in used:
                continue
            used.add(i)
            r = rng.random()
            if r < 0.45 or (r >= 0.8 and i != 0):
                keys.append('arg%d=' % i + q(rng.choice(STRS), rng))
            elif r < 0.8:
                keys.append('arg%dpath=' % i + q(rng.choice(STRS), rng))
            else:
                keys.append('arg0namespace=' + q(rng.choice(['com', 'com.example', 'com.example.A', 'x']), rng))
        if rng.random() < self.eavesdrop:
            keys.append('eavesdrop=' + q(rng.choice(['true', 'true', 'false']), rng))
        rng.shuffle(keys)
        sep = ',' if rng.random() < 0.9 else rng.choice([', ', ' ,', ','])
        txt = sep.join(keys)
        if rng.random() < 0.05:
            txt += rng.choice([',', ' ', '  '])
        return txt

    def variant(self, r):
        """a rule text close to r: equal by value (re-quoted / reordered) or differing in exactly one aspect"""
        rng = self.rng
        import re
        parts = [p for p in r.split(',') if p.strip()]
        c = rng.random()
        if c < 0.25 and len(parts) > 1:
            rng.shuffle(parts)                         # same rule, other key order
            return ','.join(parts)
        if c < 0.5:
            swaps = [(r'arg(\d)=', r'arg\1path='), (r'arg(\d)path=', r'arg\1='), (r'arg0=', 'arg0namespace='),
                     (r'arg0namespace=', 'arg0='), (r'path=', 'path_namespace='), (r'path_namespace=', 'path=')]
            rng.shuffle(swaps)
            for a, b in swaps:
                if re.search(a, r):
                    return re.sub(a, b, r, count=1)
        if c < 0.65:
            for old in PATHS + STRS + IFACES + MEMBERS:
                if old and ("'" + old + "'") in r:
                    pool = PATHS if old.startswith('/') else IFACES if old in IFACES else MEMBERS if old in MEMBERS else STRS
                    new = rng.choice(pool)
                    if "'" not in new:
                        return r.replace("'" + old + "'", "'" + new + "'", 1)
        if c < 0.8:
            return r + (",eavesdrop='false'" if 'eavesdrop' not in r else '')
        if c < 0.9 and parts:
            return ','.join(parts[:-1])
        return r

    def body(self):
        rng = self.rng
        r = rng.random()
        self.tok += 1
        if rng.random() < self.argfocus:
            sig = rng.choice(['sssu', 'sssu', 'ssu', 'sosu', 'ossu', 'soou'])
            vals = [rng.choice(FOCUS_STRS if c == 's' else ['/a', '/a/b', '/a/', '/']) for c in sig[:-1]]
            vals = [v if c == 's' or v == '/' else v.rstrip('/') for c, v in zip(sig, vals)]
            return sig, vals + [self.tok]
        if r < 0.25:
            return 'u', [self.tok]
        if r < 0.55:
            return 'su', [rng.choice(STRS), self.tok]
        if r < 0.7:
            return 'ssu', [rng.choice(STRS), rng.choice(STRS), self.tok]
        if r < 0.76:
            return rng.choice(['sou', 'osu', 'oou']), [rng.choice(PATHS + ['/a/b', '/a']), rng.choice(PATHS + ['/a/b', '/']), self.tok]
        if r < 0.85:
            return 'ou', [rng.choice(PATHS), self.tok]
        if r < 0.92:
            return 'uos', [self.tok, rng.choice(PATHS), rng.choice(STRS)]
        return '', []

    def forged(self):
        rng = self.rng
        if rng.random() >= self.forge:
            return None
        f = {}
        r = rng.random()
        if r < 0.5:
            f['sender'] = rng.choice(['org.freedesktop.DBus', ':1.0', ':1.1', 'com.example.A', ':9.9', ':1.12345', 'a.bbbbbb',
                                      ':1.' + '9' * 13, ':1.' + '9' * rng.randint(1, 14), 'a.' + 'b' * rng.randint(1, 20)])
        if rng.random() < 0.4:
            f['unknown'] = [(rng.choice([11, 12, 42, 127, 255]), rng.choice(['s', 'u', 'as', '(su)', 'v']), None)]
            vs = f['unknown'][0][1]
            val = {'s': 'forged', 'u': 7, 'as': ['a', 'b'], '(su)': ['x', 1], 'v': ['s', 'inner']}[vs]
            f['unknown'] = [(f['unknown'][0][0], vs, val)]
        if rng.random() < 0.2:
            f['ci'] = True
        if f and rng.random() < 0.5:
            f['first'] = True          # forged fields ahead of the genuine ones in the header array
        return f or None

    def dest(self):
        rng = self.rng
        r = rng.random()
        if r < 0.55:
            return rng.choice(self.names)
        if r < 0.9:
            return {'slot': rng.choice(self.slots)}
        return rng.choice(['com.example.Nobody', ':1.99'])

    def op(self, s):
        rng = self.rng
        kinds = list(self.w)
        k = rng.choices(kinds, [self.w[x] for x in kinds])[0]
        if k == 'req':
            return {'k': 'req', 'n': rng.choice(self.names), 'f': rng.randrange(8)}
        if k == 'rel':
            return {'k': 'rel', 'n': rng.choice(self.names)}
        if k == 'query':
            q = rng.choice(['owner', 'has', 'queued', 'list', 'owner', 'has', 'queued', 'list', 'uid', 'pid', 'id', 'acts'])
            n = rng.choice(self.names + (['org.freedesktop.DBus', '{u%d}' % rng.choice(self.slots)] if q in ('uid', 'pid') else []))
            return {'k': 'query', 'q': q, 'n': n}
        if k == 'addmatch':
            r = self.rule()
            self.rulesof[s].append(r)
            return {'k': 'addmatch', 'rule': r}
        if k == 'rmmatch':
            if self.rulesof[s] and rng.random() < 0.8:
                r = rng.choice(self.rulesof[s])
                if rng.random() < 0.5:
                    r = self.variant(r)
                elif rng.random() < 0.8:
                    self.rulesof[s].remove(r)
            else:
                r = self.rule()
            return {'k': 'rmmatch', 'rule': r}
        if k == 'close':
            return {'k': 'close'}
        if k == 'fdsend':
            kind = rng.choice(['signal', 'usignal', 'call', 'call'])
            self.w, keep = dict(self.w), self.w
            self.w = {kind: 1}
            o = self.op(s)
            self.w = keep
            n = rng.choice([1, 1, 2, 3, 0])
            o['fds'] = n
            r = rng.random()
            if r < 0.15 and n > 0:
                o['nfd'] = n - 1            # surplus descriptor stays held
            elif r < 0.22:
                o['nfd'] = n + 1            # announces more than it brings (unless some are held)
            elif r < 0.26:
                o['fds'] = 17               # over the per-message maximum
            if rng.random() < 0.08 and o.get('dst') is not None:
                # a header far larger than one write to the recipient's socket takes (the descriptors go with the first byte only)
                o['path'] = '/' + 'p' * rng.choice([150000, 300000])
                o.pop('join', None)
                return o
            if rng.random() < 0.2:
                o['join'] = True            # written together with the next message
            elif rng.random() < 0.3:
                o['split'] = rng.choice([1, 4, 8, 12, 15, 16, 17, 24, 40])   # first chunk (with the descriptors), then the rest
            o.pop('forge', None)
            return o
        if k == 'hello':
            return {'k': 'hello'}
        if k == 'monitor':
            n = rng.choice([0, 0, 1, 2])
            old = self.odd_rules
            self.odd_rules = 0.05
            rules = [self.rule() for _ in range(n)]
            self.odd_rules = old
            return {'k': 'monitor', 'rules': rules, 'flags': 0 if rng.random() < 0.95 else 1}
        if k == 'big':
            # (-40 / -8: header and body are each within the limit, only their sum is over it)
            return {'k': 'big', 'n': self.cfg.get('maxMsgSize', 70000) + rng.choice([1, 64, 5000, -40, -8])}
        sig, body = self.body()
        base = {'k': 'send', 'sig': sig, 'body': body, 'forge': self.forged()}
        if k == 'signal':
            base.update(ty=4, path=rng.choice(PATHS), ifc=rng.choice(IFACES), mem=rng.choice(MEMBERS))
            return base
        if k == 'usignal':
            base.update(ty=4, path=rng.choice(PATHS), ifc=rng.choice(IFACES), mem=rng.choice(MEMBERS), dst=self.dest())
            return base
        if k == 'call':
            self.ser[s] += 1
            ser = self.ser[s]
            if self.calls and rng.random() < 0.08:       # reuse an outstanding serial
                mine = [c for c in self.calls if c[0] == s]
                if mine:
                    ser = rng.choice(mine)[2]
            d = self.dest()
            fl = rng.choice([0, 0, 0, 1, 2, 3])
            base.update(ty=1, path=rng.choice(PATHS), mem=rng.choice(MEMBERS), dst=d, fl=fl, ser=ser)
            if rng.random() < 0.8:
                base['ifc'] = rng.choice(IFACES)
            self.calls.append((s, d, ser))
            return base
        if k == 'reply':
            ty = rng.choice([2, 2, 3])
            if self.calls and rng.random() < 0.85:
                caller, _d, ser = rng.choice(self.calls)
                if rng.random() < 0.12:
                    ser += rng.choice([1, -1])          # wrong serial
                tgt = caller if rng.random() < 0.9 else rng.choice(self.slots)   # reply to a third party
                if rng.random() < 0.6:
                    try:
                        self.calls.remove((caller, _d, ser))
                    except ValueError:
                        pass
            else:
                tgt, ser = rng.choice(self.slots), rng.choice([1, 1001, 1002, 7])
            base.update(ty=ty, dst={'slot': tgt}, rs=ser)
            if ty == 3:
                base['err'] = rng.choice(ERRS)
            return base
        if k == 'driver_other':
            r = rng.random()
            if r < 0.4:
                base.update(ty=1, dst='org.freedesktop.DBus', path='/org/freedesktop/DBus', ifc='org.freedesktop.DBus',
                            mem='NoSuchMethod', sig='', body=[])
            elif r < 0.6:
                base.update(ty=1, dst='org.freedesktop.DBus', path='/org/freedesktop/DBus', ifc='com.example.Nope',
                            mem='Hello', sig='', body=[])
            elif r < 0.8:
                base.update(ty=4, dst='org.freedesktop.DBus', path='/a', ifc=rng.choice(IFACES), mem='Ma')
            else:
                base.update(ty=rng.choice([2, 3]), dst='org.freedesktop.DBus', rs=rng.choice([1, 1001]))
                if base['ty'] == 3:
                    base['err'] = ERRS[0]
            return base
        if k == 'nodest':
            r = rng.random()
            if r < 0.4:
                base.update(ty=1, path='/x', ifc='org.freedesktop.DBus.Peer', mem='Ping', sig='', body=[])
            elif r < 0.7:
                base.update(ty=1, path='/x', ifc=rng.choice(IFACES), mem='Ma')
            else:
                base.update(ty=rng.choice([2, 3]), rs=rng.choice([1, 1001]))
                if base['ty'] == 3:
                    base['err'] = ERRS[0]
            return base
        raise ValueError(k)

    def scenario(self, nrounds=12, concurrency=0.35, burst=0.2, query_every=0.5, late_hello=0.0):
        rng = self.rng
        first = {}
        self.pending_hello = set()
        for s in self.slots:
            if rng.random() < late_hello:
                u = rng.choice(self.uids)
                self.connected[s] = u
                first[str(s)] = [{'k': 'connect', 'uid': u}]
                self.pending_hello.add(s)
            else:
                first[str(s)] = self.connect_ops(s)
        self.rounds = [{'ops': {k: v}} for k, v in first.items()]
        for _ in range(nrounds):
            k = 1 if rng.random() > concurrency else rng.randint(2, min(3, len(self.slots)))
            chosen = rng.sample(self.slots, k)
            ops = {}
            for s in chosen:
                if s not in self.connected:
                    ops[str(s)] = self.connect_ops(s)
                    continue
                if s in self.monitors and rng.random() > self.speak:
                    continue          # monitors stay silent most of the time
                n = rng.choice([1, 1, 2]) if rng.random() > burst else rng.randint(3, 5 if k == 1 else 4)
                lst = []
                if s in self.pending_hello and rng.random() < 0.5:
                    self.pending_hello.discard(s)
                    lst.append({'k': 'hello'})
                for _j in range(n):
                    o = self.op(s)
                    lst.append(o)
                    if o['k'] == 'monitor':
                        self.monitors.add(s)
                        break
                    if o['k'] == 'close' or s in self.monitors:
                        self.monitors.discard(s)
                        del self.connected[s]
                        self.rulesof[s] = []
                        self.calls = [c for c in self.calls if c[0] != s]
                        break
                ops[str(s)] = lst
            self.rounds.append({'ops': ops, 'order': rng.sample(chosen, len(chosen))})
            if self.connected and rng.random() < query_every:
                qs = rng.choice(sorted(self.connected))
                qq = [{'k': 'query', 'q': 'queued', 'n': n} for n in self.names] + [{'k': 'query', 'q': 'list'}]
                self.rounds.append({'ops': {str(qs): qq}})
        return {'cfg': self.cfg, 'rounds': self.rounds}

"""Scenario generators for name ownership (C04) and friends: python-random rounds."""
import random

NAMES = ['com.example.A', 'com.example.B']
ODD_NAMES = ['org.freedesktop.DBus', ':1.0', ':1.7', 'nodots', '', 'a..b', '.a.b', 'a.b.', 'a.1b', 'com.example.A-b',
             'x' * 252 + '.ab', 'x' * 253 + '.ab', 'a.b c', ':', ':a', 'a.é']
NOC_RULE = "type='signal',sender='org.freedesktop.DBus',interface='org.freedesktop.DBus',member='NameOwnerChanged'"


def scenario(rng, nslots=3, nnames=2, nrounds=10, limit=None, odd=0.08, concurrency=0.3, close_p=0.06):
    names = NAMES[:nnames]
    slots = list(range(1, nslots + 1))
    cfg = {}
    if limit:
        cfg['maxNames'] = limit
    rounds = [{'ops': {str(s): [{'k': 'connect', 'uid': 0}, {'k': 'hello'}, {'k': 'addmatch', 'rule': NOC_RULE}]
                       for s in slots}}]
    connected = set(slots)
    for _ in range(nrounds):
        k = 1 if rng.random() > concurrency else rng.randint(2, nslots)
        chosen = rng.sample(slots, k)
        ops = {}
        for s in chosen:
            if s not in connected:
                ops[str(s)] = [{'k': 'connect', 'uid': 0}, {'k': 'hello'}, {'k': 'addmatch', 'rule': NOC_RULE}]
                connected.add(s)
                continue
            lst = []
            for _j in range(rng.choice([1, 1, 1, 2])):
                n = rng.choice(ODD_NAMES) if rng.random() < odd else rng.choice(names)
                r = rng.random()
                if r < 0.62:
                    f = rng.randrange(8)
                    if rng.random() < 0.1:
                        f |= rng.choice([8, 16, 0x40000000])
                    lst.append({'k': 'req', 'n': n, 'f': f})
                elif r < 0.85:
                    lst.append({'k': 'rel', 'n': n})
                elif r < 1 - close_p:
                    lst.append({'k': 'query', 'q': rng.choice(['owner', 'has', 'queued', 'list']), 'n': n})
                else:
                    lst.append({'k': 'close'})
                    connected.discard(s)
                    break
            ops[str(s)] = lst
        rounds.append({'ops': ops, 'order': rng.sample(chosen, len(chosen))})
        # projection queries by a random live slot
        live = sorted(connected)
        if live:
            qs = rng.choice(live)
            q = [{'k': 'query', 'q': 'queued', 'n': n} for n in names] + [{'k': 'query', 'q': 'list'}]
            q += [{'k': 'query', 'q': rng.choice(['owner', 'has']), 'n': rng.choice(names)}]
            rounds.append({'ops': {str(qs): q}})
    return {'cfg': cfg, 'rounds': rounds, 'reveal': {'names': names, 'fresh': nslots + 1}}

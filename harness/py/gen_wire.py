"""Case generators for the wire format (C01, C02, C11, C12): structurally random valid messages, every single-site
corruption of them, truncations, trailing bytes, limit values on the fixed header, random bytes."""
import random
import struct
from dbuswire import (build_message, METHOD_CALL, METHOD_RETURN, ERROR, SIGNAL, F_PATH, F_INTERFACE, F_MEMBER, F_ERROR_NAME,
                      F_REPLY_SERIAL, F_DESTINATION, F_SENDER, F_SIGNATURE, F_UNIX_FDS, F_CONTAINER_INSTANCE, split_sig)

BASIC = 'ybnqiuxtdsog'
STRS = ['', 'a', 'héllo', 'x' * 7, 'x' * 8, '€\U0001F600', 'com.example.Name']
PATHS = ['/', '/a', '/a/b_c/D0']
SIGS = ['', 'i', 'a{sv}', '(ii)', 'aai', 'v']


def rand_sig(rng, depth=0, dictkey=False):
    r = rng.random()
    if dictkey or depth >= 3 or r < 0.55:
        return rng.choice(BASIC if not dictkey else 'ybnqiuxtdsog')
    if r < 0.7:
        return 'a' + rand_sig(rng, depth + 1)
    if r < 0.8:
        return 'a{' + rand_sig(rng, depth + 1, True) + rand_sig(rng, depth + 1) + '}'
    if r < 0.93:
        return '(' + ''.join(rand_sig(rng, depth + 1) for _ in range(rng.randint(1, 3))) + ')'
    return 'v'


def rand_val(rng, sig, depth=0):
    c = sig[0]
    if c == 'y':
        return rng.choice([0, 1, 127, 128, 255])
    if c == 'b':
        return rng.choice([True, False])
    if c == 'n':
        return rng.choice([0, -1, 32767, -32768, 5])
    if c == 'q':
        return rng.choice([0, 65535, 7])
    if c == 'i':
        return rng.choice([0, -1, 2147483647, -2147483648, 42])
    if c in 'uh':
        return rng.choice([0, 1, 4294967295, 2147483648]) if c == 'u' else 0
    if c == 'x':
        return rng.choice([0, -1, 2 ** 63 - 1, -2 ** 63])
    if c == 't':
        return rng.choice([0, 2 ** 64 - 1, 2 ** 63])
    if c == 'd':
        return rng.choice([0.0, -0.0, 1.5, float('inf'), float('nan'), 5e-324])
    if c == 's':
        return rng.choice(STRS)
    if c == 'o':
        return rng.choice(PATHS)
    if c == 'g':
        return rng.choice(SIGS)
    if c == 'a':
        n = rng.choice([0, 0, 1, 2, 3])
        if sig[1] == '{':
            inner = split_sig(sig[2:-1])
            return [(rand_val(rng, inner[0], depth + 1), rand_val(rng, inner[1], depth + 1)) for _ in range(n)]
        return [rand_val(rng, sig[1:], depth + 1) for _ in range(n)]
    if c == '(':
        return tuple(rand_val(rng, s, depth + 1) for s in split_sig(sig[1:-1]))
    if c == 'v':
        vs = rand_sig(rng, max(depth, 2))
        return (vs, rand_val(rng, vs, depth + 1))
    raise ValueError(sig)


def rand_message(rng, sites=None, maxargs=3):
    ty = rng.choice([1, 1, 2, 3, 4, 4])
    f = {}
    if ty in (1, 4) or rng.random() < 0.2:
        f[F_PATH] = rng.choice(PATHS)
    if ty == 4 or rng.random() < 0.6:
        f[F_INTERFACE] = rng.choice(['a.b', 'com.example.Iface', 'x._1'])
    if ty in (1, 4) or rng.random() < 0.2:
        f[F_MEMBER] = rng.choice(['M', 'Member_1'])
    if ty == 3 or rng.random() < 0.1:
        f[F_ERROR_NAME] = 'com.example.Err'
    if ty in (2, 3) or rng.random() < 0.2:
        f[F_REPLY_SERIAL] = rng.choice([1, 7, 4294967295])
    if rng.random() < 0.5:
        f[F_DESTINATION] = rng.choice([':1.5', 'com.example.Dest'])
    if rng.random() < 0.4:
        f[F_SENDER] = rng.choice([':1.2', 'org.freedesktop.DBus'])
    if rng.random() < 0.1:
        f[F_CONTAINER_INSTANCE] = '/org/freedesktop/DBus/Containers1/c7'
    items = list(f.items())
    rng.shuffle(items)
    f = dict(items)
    raw = []
    if rng.random() < 0.2:
        raw.append((rng.choice([11, 42, 200, 255]), rng.choice(['s', 'u', 'as']), None))
        raw[0] = (raw[0][0], raw[0][1], {'s': 'unk', 'u': 3, 'as': ['p', 'q']}[raw[0][1]])
    nargs = rng.choice([0, 1, 1, 2, maxargs])
    sigs = [rand_sig(rng) for _ in range(nargs)]
    while 'h' in ''.join(sigs):
        sigs = [rand_sig(rng) for _ in range(nargs)]
    body = [rand_val(rng, s) for s in sigs]
    le = rng.random() < 0.6
    nfds = 0 if rng.random() < 0.05 else None
    serial = rng.choice([1, 2, 255, 65536, 4294967295])
    return build_message(ty, serial, f, ''.join(sigs), body, rng.choice([0, 0, 1, 2, 3, 4, 8, 255]), le=le, raw_fields=raw,
                         nfds=nfds, sites=sites)


def corruptions(rng, msg, sites):
    """every single-site corruption of a valid message"""
    le = msg[0:1] == b'l'
    out = []

    def put32(off, v):
        b = bytearray(msg)
        struct.pack_into('<I' if le else '>I', b, off, v & 0xffffffff)
        out.append(bytes(b))

    def put8(off, v):
        b = bytearray(msg)
        b[off] = v & 255
        out.append(bytes(b))
    for off, kind in sites:
        if off >= len(msg):
            continue
        if kind == 'len32':
            cur = struct.unpack_from('<I' if le else '>I', msg, off)[0]
            for v in (cur + 1, cur - 1, 0, cur + 4, cur + 8, 0x7fffffff, 0xffffffff, 1 << 26, (1 << 26) + 1, 1 << 27):
                if v != cur and v >= 0:
                    put32(off, v)
        elif kind == 'len8':
            for v in (msg[off] + 1, msg[off] - 1, 0, 255):
                if 0 <= v <= 255 and v != msg[off]:
                    put8(off, v)
        elif kind == 'pad':
            put8(off, 1)
            put8(off, 255)
        elif kind == 'bool':
            put32(off, 2)
            put32(off, 0x01000000 if le else 0x00000001 if False else 0x100)
        elif kind == 'text':
            for v in (0, 0x80, 0xc0, 0xff, 0x2f, 0x2e, 0x20):
                if v != msg[off]:
                    put8(off, v)
        elif kind == 'nul':
            put8(off, 1)
            put8(off, 0x61)
        elif kind == 'sigchar':
            for v in (ord('z'), ord('a'), ord('('), ord(')'), ord('{'), ord('}'), ord('v'), ord('i'), ord('s'), 0):
                if v != msg[off]:
                    put8(off, v)
        elif kind == 'endian':
            put8(off, ord('B') if le else ord('l'))
            put8(off, ord('x'))
            put8(off, 0)
        elif kind == 'type':
            for v in (0, 5, 255):
                put8(off, v)
        elif kind == 'version':
            for v in (0, 2):
                put8(off, v)
        elif kind == 'serial':
            put32(off, 0)
    # mis-nesting: two different closing (or opening) brackets of one signature change places
    sc = [off for off, kind in sites if kind == 'sigchar' and off < len(msg)]
    for i, a in enumerate(sc):
        for b_ in sc[i + 1:]:
            if b_ - a > 12:
                break
            if (msg[a] in b')}' and msg[b_] in b')}' or msg[a] in b'({' and msg[b_] in b'({') and msg[a] != msg[b_] \
                    and all(x in sc for x in range(a, b_)):
                b = bytearray(msg)
                b[a], b[b_] = b[b_], b[a]
                out.append(bytes(b))
    # field codes: the byte after each 8-aligned struct start in the header array is hard to find generically; the
    # 'pad' and 'sigchar' sites cover the variant signatures; add truncations and trailing bytes
    for cut in range(0, len(msg), 1 if len(msg) < 160 else 7):
        out.append(msg[:cut])
    for extra in (1, 3, 8, 15, 16, 24):
        out.append(msg + bytes(rng.randrange(256) for _ in range(extra)))
        out.append(msg + b'\0' * extra)
    return out


def header_limit_cases():
    out = []
    for le in (True, False):
        e = '<' if le else '>'
        for blen, flen in ((0, 0), (1 << 26, 0), (1 << 27, 0), ((1 << 27) - 16, 0), ((1 << 27) - 15, 0), (0, 1 << 26), (0, (1 << 26) + 1),
                           (0, (1 << 26) - 7), ((1 << 27) - 16 - (1 << 26), 1 << 26), (0xffffffff, 0), (0, 0xffffffff), (0x80000000, 0),
                           (100, 50), (7, 9)):
            h = (b'l' if le else b'B') + bytes([1, 0, 1]) + struct.pack(e + 'III', blen, 1, flen)
            out.append(h)
            out.append(h + b'\0' * 8)
    return out


MISNESTED = [('(a{ss}i)', '(a{ss)i}'), ('(a{s(s)})', '(a{s(s})'), ('a{s(i)}', 'a{s(i})'), ('(sa{ss})', '(sa{ss)}'),
             ('((a{ss}))', '((a{ss)})'), ('(a{sv}s)', '(a{sv)s}'), ('a(a{ss}i)', 'a(a{ss)i}'), ('(ia{s(ii)})', '(ia{s(ii})')]


def misnested_cases(rng):
    """well-formed messages whose body signature (or a signature-typed value) has its brackets crossed"""
    out = []
    for good, bad in MISNESTED:
        for le in (True, False):
            f = {F_PATH: '/a', F_INTERFACE: 'a.b', F_MEMBER: 'M'}
            m = build_message(SIGNAL, 7, f, good, [rand_val(rng, good)], le=le)
            assert m.count(good.encode()) == 1
            out.append(m)
            out.append(m.replace(good.encode(), bad.encode()))
            m = build_message(SIGNAL, 7, f, 'g', [good], le=le)
            out.append(m.replace(good.encode(), bad.encode()))
            m = build_message(SIGNAL, 7, f, 'v', [(good, rand_val(rng, good))], le=le)
            out.append(m)
            out.append(m.replace(good.encode(), bad.encode()))
    return out


def dem_cases(rng, nmsgs, random_bytes=200):
    cases = []
    for _ in range(nmsgs):
        sites = []
        m = rand_message(rng, sites)
        if len(m) > 600:
            continue
        cases.append(m)
        cs = corruptions(rng, m, sites)
        rng.shuffle(cs)
        cases.extend(cs[:60])
        if rng.random() < 0.3:
            m2 = rand_message(rng)
            cases.append(m + m2)
            cases.append(m + m2[:rng.randrange(len(m2))])
    cases.extend(header_limit_cases())
    cases.extend(misnested_cases(rng))
    for _ in range(random_bytes):
        n = rng.choice([0, 1, 15, 16, 17, 40, 100])
        cases.append(bytes(rng.randrange(256) for _ in range(n)))
        b = bytearray(rand_message(rng))
        for _k in range(rng.randint(1, 3)):
            b[rng.randrange(len(b))] = rng.randrange(256)
        cases.append(bytes(b))
    return cases

"""Construction programs for C02: a python value tree is rendered (a) as the text program wirecase.c interprets through
the public libdbus API, (b) as the canonical decoded form (what an independent decoder must report), (c) as python-
encoded wire bytes in either byte order."""
import struct
import random
from dbuswire import split_sig, build_message, FIXED, F_PATH, F_INTERFACE, F_MEMBER, F_ERROR_NAME, F_DESTINATION, F_SENDER, \
    F_REPLY_SERIAL
import gen_wire

FMT = {'y': 'B', 'n': 'h', 'q': 'H', 'i': 'i', 'u': 'I', 'x': 'q', 't': 'Q', 'd': 'd', 'h': 'I'}


def le_bytes(c, v):
    if c == 'b':
        return struct.pack('<I', int(bool(v)))
    return struct.pack('<' + FMT[c], v)


def txt(v):
    return v if isinstance(v, bytes) else v.encode()


def canon(sig, v):
    c = sig[0]
    if c in FMT or c == 'b':
        return {'t': ord(c), 'v': list(le_bytes(c, v))}
    if c in 'sog':
        return {'t': ord(c), 'v': list(txt(v))}
    if c == 'v':
        return {'t': 118, 's': list(txt(v[0])), 'v': canon(v[0], v[1])}
    if c == 'a':
        es = sig[1:]
        if es[0] == '{':
            inner = split_sig(es[1:-1])
            items = [{'t': 123, 'v': [canon(inner[0], k), canon(inner[1], x)]} for k, x in v]
        else:
            items = [canon(es, x) for x in v]
        return {'t': 97, 'es': list(es.encode()), 'n': len(items), 'v': items}
    if c == '(':
        return {'t': 40, 'v': [canon(s, x) for s, x in zip(split_sig(sig[1:-1]), v)]}
    raise ValueError(sig)


def prog(sig, v, fixed_route=False):
    c = sig[0]
    if c == 'y':
        return 'y%02x' % v
    if c == 'b':
        return 'b1' if v else 'b0'
    if c in FMT:
        return c + le_bytes(c, v).hex()
    if c in 'sog':
        b = txt(v)
        return '%s%d:%s' % (c, len(b), b.hex())
    if c == 'v':
        return 'v%d:%s%s' % (len(v[0]), v[0].encode().hex(), prog(v[0], v[1], fixed_route))
    if c == 'a':
        es = sig[1:]
        if es[0] == '{':
            inner = split_sig(es[1:-1])
            items = ''.join('{' + prog(inner[0], k, fixed_route) + prog(inner[1], x, fixed_route) + '}' for k, x in v)
            return 'a%d:%s[%s]' % (len(es), es.encode().hex(), items)
        if fixed_route and len(es) == 1 and (es in FMT or es == 'b') and es != 'h' and len(v) > 0:
            # the array may be filled in several blocks, mixed with single appends (fixed_route may be a random source)
            rr = fixed_route if hasattr(fixed_route, 'random') else None
            parts = []
            for x in v:
                r = rr.random() if rr else 1.0
                parts.append(('|' if r < 0.2 else '.' if r < 0.32 else '') + prog(es, x, fixed_route))
            return 'A%d:%s[%s]' % (len(es), es.encode().hex(), ''.join(parts))
        return 'a%d:%s[%s]' % (len(es), es.encode().hex(), ''.join(prog(es, x, fixed_route) for x in v))
    if c == '(':
        return '(' + ''.join(prog(s, x, fixed_route) for s, x in zip(split_sig(sig[1:-1]), v)) + ')'
    raise ValueError(sig)


def u32le(n):
    return [n & 255, (n >> 8) & 255, (n >> 16) & 255, (n >> 24) & 255]


def program(rng, sigs=None):
    """returns (text line, canonical message, python LE bytes, python BE bytes)"""
    ty = rng.choice([1, 2, 3, 4])
    hdr = {'P': None, 'I': None, 'M': None, 'E': None, 'D': None, 'S': None, 'R': 0}
    if ty in (1, 4) or rng.random() < 0.3:
        hdr['P'] = rng.choice(gen_wire.PATHS)
    if ty == 4 or rng.random() < 0.5:
        hdr['I'] = rng.choice(['a.b', 'com.example.Iface'])
    if ty in (1, 4) or rng.random() < 0.3:
        hdr['M'] = rng.choice(['M', 'Member_1'])
    if ty == 3 or rng.random() < 0.2:
        hdr['E'] = 'com.example.Err'
    if ty in (2, 3) or rng.random() < 0.2:
        hdr['R'] = rng.choice([1, 7, 4294967295])
    if rng.random() < 0.5:
        hdr['D'] = rng.choice([':1.5', 'com.example.Dest'])
    if rng.random() < 0.4:
        hdr['S'] = rng.choice([':1.2', 'org.freedesktop.DBus'])
    if sigs is None and rng.random() < 0.04:
        # very many arguments: the body signature passes 127 / 128 / 255 bytes while values are still being appended
        n = rng.choice([126, 127, 128, 129, 130, 200, 254, 255])
        sigs = [rng.choice(['y', 'y', 'b', 'i', 'q', 'n']) for _ in range(n)] if rng.random() < 0.7 else \
               ['a{sv}'] * (n // 5) + ['y'] * (n % 5)
    if sigs is None:
        sigs = [gen_wire.rand_sig(rng) for _ in range(rng.choice([0, 1, 1, 2, 3]))]
        while 'h' in ''.join(sigs):
            sigs = [gen_wire.rand_sig(rng) for _ in range(len(sigs))]
    vals = [gen_wire.rand_val(rng, s) for s in sigs]
    fl = rng.choice([0, 1, 2, 3, 4, 7])
    fixed_route = rng if rng.random() < 0.5 else False
    fields = ';'.join('%s=%s' % (k, v.encode().hex()) for k, v in hdr.items() if k != 'R' and v) or ''
    if hdr['R']:
        fields = (fields + ';' if fields else '') + 'R=%d' % hdr['R']
    body = ''.join(prog(s, v, fixed_route) for s, v in zip(sigs, vals)) or '-'
    line = '%d %d %s %s' % (ty, fl, fields or '-', body)
    sig = ''.join(sigs)
    m = {'ty': ty, 'fl': fl, 'ser': [4, 3, 2, 1], 'rs': u32le(hdr['R']), 'path': list(txt(hdr['P'] or '')), 'ifc': list(txt(hdr['I'] or '')),
         'mem': list(txt(hdr['M'] or '')), 'err': list(txt(hdr['E'] or '')), 'dst': list(txt(hdr['D'] or '')),
         'snd': list(txt(hdr['S'] or '')), 'ci': [], 'sig': list(sig.encode()), 'body': [canon(s, v) for s, v in zip(sigs, vals)]}
    f = {}
    for k, code in (('P', F_PATH), ('I', F_INTERFACE), ('M', F_MEMBER), ('E', F_ERROR_NAME), ('D', F_DESTINATION), ('S', F_SENDER)):
        if hdr[k]:
            f[code] = hdr[k]
    if hdr['R']:
        f[F_REPLY_SERIAL] = hdr['R']
    wire = [build_message(ty, 0x01020304, f, sig, vals, fl, le=le) for le in (True, False)]
    return line, m, wire[0], wire[1]


def all_sigs(maxlen):
    """every single complete type of length <= maxlen over a reduced alphabet (yields signature strings)"""
    basics = 'ybqixds'
    memo = {}

    def types(n):          # single complete types of exactly length n
        if n in memo:
            return memo[n]
        out = []
        if n == 1:
            out = list(basics) + ['v']
        else:
            out += ['a' + t for t in types(n - 1)]
            # struct of k>=1 fields with total length n-2
            def seqs(total):
                if total == 0:
                    return ['']
                r = []
                for first in range(1, total + 1):
                    for t in types(first):
                        for rest in seqs(total - first):
                            r.append(t + rest)
                return r
            if n >= 3:
                out += ['(' + s + ')' for s in seqs(n - 2)]
            if n >= 5:
                for k in basics:
                    for t in types(n - 4):
                        out.append('a{' + k + t + '}')
        memo[n] = out
        return out
    for n in range(1, maxlen + 1):
        for t in types(n):
            yield t

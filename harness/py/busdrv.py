"""Round-based multi-client driver for the real dbus-daemon.

A scenario is {"cfg": {...}, "rounds": [{"ops": {"<slot>": [op, ...]}, "order": [slots]}, ...]}.
run_scenario() executes it against a freshly started daemon and returns the NDJSON trace lines
(a Reset line followed by one Round line per round) in the format BusTrace.tla reads.

The driver decides nothing: it records what it wrote and what every client read.
"""
import json
import os
import re
import time
import select
import signal
import socket

from dbuswire import (Conn, build_message, METHOD_CALL, METHOD_RETURN, ERROR, SIGNAL, F_PATH, F_INTERFACE,
                      F_MEMBER, F_ERROR_NAME, F_REPLY_SERIAL, F_DESTINATION, F_SENDER, F_SIGNATURE, F_UNIX_FDS,
                      F_CONTAINER_INSTANCE, split_sig, message_length)
from daemon import Daemon, make_config

NSLOTS = 6
BUSNAME = 'org.freedesktop.DBus'
BUSPATH = '/org/freedesktop/DBus'
BIG = 1 << 31

DEFAULT_CFG = {'maxMsgFds': 16, 'maxMsgSize': 33554432, 'maxNames': 100000, 'maxMatch': 100000, 'maxReplies': 100000, 'maxCompleted': 100000,
               'maxPerUser': 100000, 'busUid': 0, 'policy': {'kind': 'allow-all'}}
LIMIT_NAMES = {'maxNames': 'max_names_per_connection', 'maxMatch': 'max_match_rules_per_connection',
               'maxReplies': 'max_replies_per_connection', 'maxCompleted': 'max_completed_connections',
               'maxPerUser': 'max_connections_per_user'}


def B(x):
    """text -> list of byte values"""
    if x is None:
        return []
    if isinstance(x, str):
        x = x.encode('utf-8', 'surrogateescape')
    return list(x)


def Bp(x):
    """object paths can be arbitrarily long: a very long one is recorded as its first 64 bytes, '#', CRC and length (still a
    byte sequence, and still what prefix comparisons of match rules with ordinary values need)"""
    b = B(x)
    if len(b) <= 1024:
        return b
    import zlib
    c = zlib.crc32(bytes(b))
    n = len(b)
    return b[:64] + [35] + [(c >> s) & 255 for s in (0, 8, 16, 24)] + [(n >> s) & 255 for s in (0, 8, 16, 24)]


def norm_val(sig, v):
    c = sig[0]
    if c in 'sog':
        return B(v)
    if c == 'b':
        return bool(v)
    if c in 'ynqiuxth':
        return v if -BIG < v < BIG else '#%d' % v
    if c == 'd':
        import struct
        return 'd:' + struct.pack('<d', v).hex()
    if c == 'a':
        if sig[1:2] == 'y' and len(v) > 256:
            import zlib
            return '#ay:%d:%08x' % (len(v), zlib.crc32(bytes(v)))       # large byte arrays: length and checksum
        return [norm_val(sig[1:], x) for x in v]
    if c in '({':
        return [norm_val(s, x) for s, x in zip(split_sig(sig[1:-1]), v)]
    if c == 'v':
        return [B(v[0]), norm_val(v[0], v[1])]
    raise ValueError(sig)


def norm_args(sig, body):
    return [{'t': ord(s[0]), 'v': norm_val(s, v)} for s, v in zip(split_sig(sig), body)]


def norm_msg(m, fdtokens=(), rawobs=False):
    r = _norm_msg(m, fdtokens)
    if rawobs:
        r['braw'] = list(m.braw)
        r['le'] = bool(m.le)
    return r


def _norm_msg(m, fdtokens=()):
    f = m.fields
    known = set(range(1, 11))
    return {'ty': m.type, 'snd': B(f.get(F_SENDER)), 'dst': B(f.get(F_DESTINATION)), 'ser': m.serial,
            'rs': f.get(F_REPLY_SERIAL, 0), 'path': Bp(f.get(F_PATH)), 'ifc': B(f.get(F_INTERFACE)),
            'mem': B(f.get(F_MEMBER)), 'err': B(f.get(F_ERROR_NAME)), 'sig': B(m.sig),
            'args': norm_args(m.sig, m.body), 'fl': m.flags, 'nfd': f.get(F_UNIX_FDS, 0),
            'unk': sorted(c for c, _s, _v in m.raw_fields if c not in known),
            'ci': F_CONTAINER_INSTANCE in f, 'mal': bool(m.dirty), 'fds': list(fdtokens),
            '_': _human(m)}


def _human(m):
    f = m.fields
    return '%s %s>%s %s.%s %s rs=%s %s' % ({1: 'call', 2: 'ret', 3: 'err', 4: 'sig'}.get(m.type, m.type),
                                          f.get(F_SENDER), f.get(F_DESTINATION), f.get(F_INTERFACE, ''),
                                          f.get(F_MEMBER, ''), f.get(F_ERROR_NAME, ''), f.get(F_REPLY_SERIAL, ''),
                                          (repr(m.body)[:200]) if m.type != 3 else '')


class SlotState:
    def __init__(self):
        self.c = None
        self.monitor = False
        self.joined = []
        self.closed = True     # no connection
        self.eof = False
        self.stalled = False   # the driver does not read this client for the time being
        self.mute = False      # wrote an incomplete message: whatever it writes now only completes that message


class Driver:
    def __init__(self, build, cfg=None, nslots=NSLOTS, daemon_kw=None):
        self.cfg = dict(DEFAULT_CFG)
        self.cfg.update(cfg or {})
        self.n = nslots
        self.slots = {i: SlotState() for i in range(1, nslots + 1)}
        self.daemon_kw = dict(daemon_kw or {})
        kw, limits = self.config_kw()
        self.actdir = None
        if self.cfg.get('act'):
            import tempfile
            self.actdir = tempfile.mkdtemp(prefix='va-', dir=os.environ.get('VERIF_TMP', '/tmp'))
            os.chmod(self.actdir, 0o755)
            os.mkdir(os.path.join(self.actdir, 'services'))
            os.mkdir(os.path.join(self.actdir, 'ctl'))
            from daemon import harness_bin
            stub = harness_bin(build, 'svcstub')
            for a in self.cfg['act']:
                ex = {'ok': '%s %s %s' % (stub, os.path.join(self.actdir, 'ctl'), a['n']),
                      'noexec': '/nonexistent/verif-no-such-program --x',
                      'badquote': "/bin/true 'unclosed"}[a['kind']]
                with open(os.path.join(self.actdir, 'services', a['n'] + '.service'), 'w') as f:
                    f.write('[D-BUS Service]\nName=%s\nExec=%s\n' % (a['n'], ex))
            kw['servicedirs'] = [os.path.join(self.actdir, 'services')]
            if 'actTimeoutMs' in self.cfg:
                limits['service_start_timeout'] = self.cfg['actTimeoutMs']
            if 'maxPendingAct' in self.cfg:
                limits['max_pending_service_starts'] = self.cfg['maxPendingAct']
        self.exited = set()
        self.atimes = {}
        kw.setdefault('limits', limits)
        self.start_kw = kw
        self.daemon = Daemon(build, **kw)
        self.lines = [{'e': 'Reset', 'cfg': self.cfg_record()}]
        self.rawobs = bool(self.cfg.get('rawobs'))
        # baseline of the daemon's descriptor table, taken after it has finished its lazy start-up work
        try:
            w = Conn(self.daemon.path, abstract=self.daemon.abstract)
            w.hello()
            # the bus's own id, read once here: GetId must keep answering exactly this
            msgs, ok = w.recv_until_reply(w.bus_call('GetId'))
            self.guid = msgs[-1].body[0] if ok and msgs[-1].type == 2 and msgs[-1].body else ''
            self.lines[0]['cfg'] = self.cfg_record()
            # half-close and wait for the daemon's own close (end of file on our side): only then is its
            # descriptor for this connection gone, however slowly it is scheduled
            try:
                w.s.shutdown(socket.SHUT_WR)
                w.s.settimeout(5.0)
                while w.s.recv(65536):
                    pass
            except (IOError, OSError):
                pass
            w.close()
        except (IOError, OSError):
            pass
        t0 = time.time()
        last = -1
        while time.time() - t0 < 1.0:
            n = self.daemon.nfds()
            if n == last:
                break
            last = n
            time.sleep(0.02)
        self.base_fds = self.daemon.nfds()
        self.fdtok = {}        # (st_dev, st_ino) -> token
        self.nfiles = 0
        self.stall = []
        self.times = {}
        self.kept = []

    # -- writing one op; returns the normalised op record (None = skipped)
    def config_kw(self):
        """(keyword arguments for make_config, limits) for the configuration self.cfg describes"""
        limits = {LIMIT_NAMES[k]: v for k, v in self.cfg.items() if k in LIMIT_NAMES and v < 100000}
        if 'replyTimeoutMs' in self.cfg:
            limits['reply_timeout'] = self.cfg['replyTimeoutMs']
        kw = dict(self.daemon_kw)
        if 'maxIncomplete' in self.cfg:
            limits['max_incomplete_connections'] = self.cfg['maxIncomplete']
        if 'maxOutgoing' in self.cfg:
            limits['max_outgoing_bytes'] = self.cfg['maxOutgoing']
        if self.cfg['maxMsgSize'] != 33554432:
            limits['max_message_size'] = self.cfg['maxMsgSize']
        if self.cfg.get('maxMsgFds', 16) != 16:
            limits['max_message_unix_fds'] = self.cfg['maxMsgFds']
        if 'policy_ctxs' in self.cfg:
            import policygen
            xml, rec = policygen.policy([tuple(c) for c in self.cfg['policy_ctxs']], self.cfg.get('groups_of'))
            kw['policy'] = xml
            self.cfg['policy'] = rec
        return kw, limits

    def cfg_record(self):
        """the configuration as the trace specification reads it (Reset line, reload operation)"""
        rec = {k: self.cfg[k] for k in ('maxNames', 'maxMatch', 'maxReplies', 'maxCompleted', 'maxPerUser',
                                        'busUid', 'policy', 'maxMsgFds', 'maxMsgSize')}
        if self.cfg.get('act'):
            rec['act'] = [{'n': B(a['n']), 'kind': a['kind']} for a in self.cfg['act']]
            rec['maxPendingAct'] = self.cfg.get('maxPendingAct', 512)
        if getattr(self, 'daemon', None) is not None:
            rec['busPid'] = self.daemon.pid
            rec['clientPid'] = os.getpid()
            rec['guid'] = B(getattr(self, 'guid', '') or '')
        return rec

    def reload(self, c, op):
        """rewrite the configuration file (limits and policy from op['cfg'], everything else as at start) and ask the
        bus to read it again"""
        from daemon import make_config
        self.cfg.update(op['cfg'])
        kw, limits = self.config_kw()
        for k in ('servicedirs',):
            if k in self.start_kw:
                kw[k] = self.start_kw[k]
        for k in ('service_start_timeout', 'max_pending_service_starts'):
            if k in self.start_kw.get('limits', {}):
                limits[k] = self.start_kw['limits'][k]
        kw.setdefault('limits', limits)
        self.daemon.write_config(make_config(self.daemon.dir, **kw))
        ser = c.bus_call('ReloadConfig', flags=op.get('fl', 0))
        return {'k': 'reload', 'ser': ser, 'fl': op.get('fl', 0), 'cfg': self.cfg_record()}

    def write_op(self, s, op):
        st = self.slots[s]
        k = op['k']
        if k == 'svc_exit':
            return self.svc_exit(op)
        if k == 'connect':
            if not st.closed:
                return None
            try:
                go = self.cfg.get('groups_of') or {}
                u = op.get('uid', 0)
                st.c = Conn(self.daemon.path, uid=u, abstract=self.daemon.abstract,
                            negotiate_fds=op.get('fdcap', False), gids=go.get(u, go.get(str(u))))
            except (IOError, OSError) as e:
                return {'k': 'connect_failed', 'uid': op.get('uid', 0), 'why': str(e)}
            st.closed = False
            st.eof = False
            st.mute = False
            st.stalled = False
            st.monitor = False
            st.joined = []
            return {'k': 'connect', 'uid': op.get('uid', 0), 'fdcap': bool(st.c.fd_ok)}
        if st.closed or st.eof:
            return None
        c = st.c
        fl = op.get('fl', 0)
        if k != 'send':
            self.flush_joined(st)        # nothing stays held back across another kind of operation
        if k == 'aclose':
            # abrupt close, no farewell ping; was the line already dead?
            waseof = False
            c.flush_held()
            try:
                c.s.setblocking(False)
                waseof = c.s.recv(1, socket.MSG_PEEK) == b''
            except (BlockingIOError, InterruptedError):
                waseof = False
            except OSError:
                waseof = True
            c.close()
            st.closed = True
            st.mute = False
            return {'k': 'aclose', 'waseof': waseof}
        if st.mute:
            return None
        if k == 'reload':
            return self.reload(c, op)
        if k == 'hello':
            ser = c.bus_call('Hello', flags=fl)
            return {'k': 'hello', 'ser': ser, 'fl': fl, 'got': []}
        if k == 'req':
            n = op['n']
            ser = c.bus_call('RequestName', 'su', (_txt(n), op['f']), flags=fl)
            return {'k': 'req', 'ser': ser, 'fl': fl, 'n': B(_txt(n)), 'f': op['f'], '_': str(n)}
        if k == 'rel':
            ser = c.bus_call('ReleaseName', 's', (_txt(op['n']),), flags=fl)
            return {'k': 'rel', 'ser': ser, 'fl': fl, 'n': B(_txt(op['n'])), '_': str(op['n'])}
        if k == 'query':
            q = op['q']
            mem = {'owner': 'GetNameOwner', 'has': 'NameHasOwner', 'queued': 'ListQueuedOwners', 'list': 'ListNames',
                   'uid': 'GetConnectionUnixUser', 'pid': 'GetConnectionUnixProcessID', 'id': 'GetId', 'acts': 'ListActivatableNames'}[q]
            if q in ('list', 'id', 'acts'):
                ser = c.bus_call(mem, flags=fl)
                return {'k': 'query', 'ser': ser, 'fl': fl, 'q': q, 'n': []}
            n = _txt(self.resolve(op['n']))
            ser = c.bus_call(mem, 's', (n,), flags=fl)
            return {'k': 'query', 'ser': ser, 'fl': fl, 'q': q, 'n': B(n), '_': str(op['n'])}
        if k == 'ping':
            ser = c.call(BUSNAME, BUSPATH, 'org.freedesktop.DBus.Peer', 'Ping')
            return {'k': 'ping', 'ser': ser}
        if k == 'startsvc':
            ser = c.bus_call('StartServiceByName', 'su', (_txt(op['n']), op.get('flags', 0)), flags=fl)
            self.noexec_wait = self.noexec_wait or self.act_kind(op['n']) == 'noexec'
            return {'k': 'startsvc', 'ser': ser, 'fl': fl, 'n': B(_txt(op['n'])), 'flags': op.get('flags', 0), '_': str(op['n'])}
        if k in ('addmatch', 'rmmatch'):
            r = _txt(self.resolve(op['rule']))
            ser = c.bus_call('AddMatch' if k == 'addmatch' else 'RemoveMatch', 's', (r,), flags=fl)
            return {'k': k, 'ser': ser, 'fl': fl, 'rule': B(r), '_': str(r)}
        if k == 'monitor':
            rules = [_txt(self.resolve(r)) for r in op.get('rules', [])]
            flags = op.get('flags', 0)
            ser = c.call(BUSNAME, BUSPATH, 'org.freedesktop.DBus.Monitoring', 'BecomeMonitor', 'asu', (rules, flags), flags=fl)
            return {'k': 'monitor', 'ser': ser, 'fl': fl, 'rules': [B(r) for r in rules], 'flags': flags, '_': str(rules)}
        if k == 'send':
            return self.write_send(c, op)
        if k == 'big':
            data = build_message(SIGNAL, c.next_serial(), {F_PATH: '/big', F_INTERFACE: 'com.example.Big', F_MEMBER: 'Big'},
                                 'ay', [list(b'x' * op['n'])])
            c.send_raw(data)
            return {'k': 'big', 'n': op['n']}
        if k == 'raw':
            data = bytes(op['bytes']) if 'bytes' in op else bytes.fromhex(op['hex'])
            try:
                c.send_raw(data)
            except OSError:
                pass
            # bookkeeping only (the specification decides what the bytes are): an incomplete message swallows
            # whatever follows, so this client keeps quiet from now on
            if len(data) < 16 or (data[0:1] in (b'l', b'B') and message_length(data[:16]) <= self.cfg['maxMsgSize']
                                  and message_length(data[:16]) <= (1 << 27) and len(data) < message_length(data[:16])):
                st.mute = True
            return {'k': 'raw', 'b': list(data), 'mute': st.mute}
        raise ValueError(k)

    def resolve(self, x):
        """placeholders -> text; None if a referenced slot has no unique name (yet)"""
        if isinstance(x, dict) and 'slot' in x:
            st = self.slots.get(x['slot'])
            if st is None or st.c is None or st.c.unique is None:
                return None
            return st.c.unique
        if isinstance(x, str) and '{u' in x:
            def sub(m):
                st = self.slots.get(int(m.group(1)))
                return st.c.unique if st and st.c is not None and st.c.unique else ':1.9999'
            return re.sub(r'\{u(\d+)\}', sub, x)
        return x

    def write_send(self, c, op):
        ty = op['ty']
        if op.get('dst') is not None:
            d = self.resolve(op['dst'])
            if d is None:
                # the operation is dropped; a message that was waiting to be written together with it goes out now
                self.flush_joined([x for x in self.slots.values() if x.c is c][0])
                return None
            op = dict(op, dst=d)
        f = {}
        for key, code in (('path', F_PATH), ('ifc', F_INTERFACE), ('mem', F_MEMBER), ('err', F_ERROR_NAME),
                          ('dst', F_DESTINATION)):
            if op.get(key):
                f[code] = _txt(op[key])
        if op.get('rs'):
            f[F_REPLY_SERIAL] = op['rs']
        sig = op.get('sig', '')
        body = _body(sig, op.get('body', []))
        raw = []
        forge = op.get('forge') or {}
        if isinstance(forge.get('sender'), str) and forge['sender'].startswith('{own'):
            # "{own-N}": the writer's own unique name without its last N characters; "{own+X}": with X appended
            own = c.unique or ':0.0'
            spec = forge['sender'][4:-1]
            forge = dict(forge, sender=own[:-int(spec[1:])] if spec[0] == '-' else own + spec[1:])
        if 'sender' in forge:
            raw.append((F_SENDER, 's', forge['sender']))
        if forge.get('ci'):
            raw.append((F_CONTAINER_INSTANCE, 'o', '/org/freedesktop/DBus/Containers1/c1'))
        for code, vs, vv in forge.get('unknown', []):
            raw.append((code, vs, _body(vs, [vv])[0]))
        ser = op.get('ser') or c.next_serial()
        fl = op.get('fl', 0)
        if self.act_kind(op.get('dst')) == 'noexec':
            self.noexec_wait = True
        nattach = op.get('fds', 0)
        nfd = op.get('nfd', nattach)
        fds, toks = self.new_files(nattach)
        data = build_message(ty, ser, f, sig, body, fl, le=op.get('le', True), raw_fields=raw,
                             nfds=nfd if (nattach or 'nfd' in op) else None, raw_first=bool(forge.get('first')))
        st = [x for x in self.slots.values() if x.c is c][0]
        st.joined.append((data, fds))
        if not op.get('join'):
            self.flush_joined(st, op.get('split'))
        return {'k': 'send', 'ser': ser, 'fl': fl, 'ty': ty, 'att': toks, 'dst': B(_txt(op.get('dst'))), 'rs': op.get('rs', 0),
                'path': Bp(_txt(op.get('path'))), 'ifc': B(_txt(op.get('ifc'))), 'mem': B(_txt(op.get('mem'))),
                'err': B(_txt(op.get('err'))), 'sig': B(sig), 'args': norm_args(sig, body), 'nfd': nfd,
                'forged': bool(forge), 'fsnd': B(forge.get('sender')), '_': '%s %s %s.%s' % (ty, op.get('dst'), op.get('ifc'), op.get('mem'))}

    def flush_joined(self, st, cut=None):
        """write the messages of this client that were held back to share one write"""
        if not st.joined or st.c is None:
            return
        c = st.c
        blob = b''.join(d for d, _f in st.joined)
        allfds = [x for _d, fl_ in st.joined for x in fl_]
        if cut and 0 < cut < len(blob):
            # the descriptors travel with the first chunk; the rest follows in a separate write
            c.send_raw(blob[:cut], allfds or None)
            time.sleep(0.003)
            c.send_raw(blob[cut:])
        else:
            c.send_raw(blob, allfds or None)
        for x in allfds:
            os.close(x)
        st.joined = []

    # -- reading
    def read_until(self, s, serial, obs, timeout=8.0):
        """read slot s until the reply to `serial` (inclusive); False on EOF/timeout"""
        st = self.slots[s]
        c = st.c
        deadline = time.time() + timeout
        while True:
            m = c.recv(max(0.05, deadline - time.time()))
            if m is None:
                if c.eof:
                    st.eof = True
                    return False
                if time.time() >= deadline:
                    self.stall.append(s)
                    return False
                continue
            obs.append(norm_msg(m, self.tokens_of(m.fds), self.rawobs))
            if m.type in (METHOD_RETURN, ERROR) and m.fields.get(F_REPLY_SERIAL) == serial \
                    and m.fields.get(F_SENDER) == BUSNAME:
                return True

    def drain(self, s, obs, quiet=0.25):
        """monitor slots cannot ping: read until the line has been quiet for `quiet` seconds"""
        st = self.slots[s]
        while True:
            m = st.c.recv(quiet)
            if m is None:
                if st.c.eof:
                    st.eof = True
                return
            obs.append(norm_msg(m, self.tokens_of(m.fds), self.rawobs))

    def tokens_of(self, fds):
        """identify received descriptors as the files the driver created (token), then close them"""
        out = []
        for fd in fds:
            try:
                st = os.fstat(fd)
                out.append(self.fdtok.get((st.st_dev, st.st_ino), -1))
            except OSError:
                out.append(-2)
            try:
                os.close(fd)
            except OSError:
                pass
        return out

    def new_files(self, n):
        fds, toks = [], []
        d = os.path.join(self.daemon.dir, 'fdfiles')
        os.makedirs(d, exist_ok=True)
        for _ in range(n):
            self.nfiles += 1
            fd = os.open(os.path.join(d, 'f%d' % self.nfiles), os.O_RDWR | os.O_CREAT, 0o600)
            st = os.fstat(fd)
            self.fdtok[(st.st_dev, st.st_ino)] = self.nfiles
            fds.append(fd)
            toks.append(self.nfiles)
        return fds, toks

    def run_round(self, rnd):
        ops_in = {int(k): v for k, v in rnd.get('ops', {}).items()}
        order = rnd.get('order') or sorted(ops_in)
        rec_ops = {s: [] for s in self.slots}
        obs = {s: [] for s in self.slots}
        p1 = {}
        closing = []
        hello_idx = {}
        became = {}
        eof_early = []
        self.stall = []
        self.noexec_wait = False
        t_start = time.monotonic()
        nfd_before = self.daemon.nfds()
        # unauthenticated strangers: junk, half handshakes, connect-and-go (no part of the bus state)
        pre = self.strangers(rnd.get('pre', []))
        # clients that stop being read / are read again do so before anything is written in this round
        for s in sorted(ops_in):
            st = self.slots[s]
            for op in ops_in[s]:
                if op['k'] == 'stall' and not st.closed and not st.eof:
                    st.stalled = True
                    rec_ops[s].append({'k': 'stall'})
                elif op['k'] == 'unstall' and st.stalled and not st.closed:
                    self.drain(s, obs[s], quiet=0.15)
                    st.stalled = False
                    rec_ops[s].append({'k': 'unstall'})
        # ... and a client that will close abruptly in this round writes without ever reading again
        leaving = [s for s in sorted(ops_in) if any(o['k'] == 'aclose' for o in ops_in[s])
                   and (not self.slots[s].closed or any(o['k'] == 'connect' for o in ops_in[s]))]
        stalled_now = sorted(set([s for s in sorted(self.slots) if self.slots[s].stalled and not self.slots[s].closed] + leaving))
        # phase 1a: everybody writes
        for s in order:
            st = self.slots[s]
            wrote = False
            frozen = False
            if s in leaving and not st.closed and not st.eof:
                # nothing unread may be left in this client's inbox when it closes (closing with unread input resets
                # the connection and the bus may then rightly drop what it has not read yet): read what is there, and
                # keep the daemon from answering until the client has written everything and gone
                self.drain(s, obs[s], quiet=0.05)
                os.kill(self.daemon.pid, signal.SIGSTOP)
                frozen = True
                st.c.holding = bytearray()      # one write for the whole burst (many small writes exhaust the
                                                # socket's send buffer long before its nominal size)
            for op in ops_in.get(s, []):
                if op['k'] in ('stall', 'unstall'):
                    continue
                if op['k'] == 'close':
                    if not st.closed and not st.eof:
                        closing.append(s)
                    break
                if op['k'] == 'sleep':
                    time.sleep(op['ms'] / 1000.0)
                    continue
                r = self.write_op(s, op)
                if r is None:
                    continue
                if r['k'] == 'monitor':
                    rec_ops[s].append(r)
                    became[s] = r['ser']
                    break
                if r['k'] == 'hello':
                    hello_idx.setdefault(s, []).append(len(rec_ops[s]))
                rec_ops[s].append(r)
                wrote = wrote or r['k'] not in ('connect', 'connect_failed')
            if frozen:
                os.kill(self.daemon.pid, signal.SIGCONT)
            if st.closed or st.eof or st.monitor or st.mute or st.stalled:
                continue
            if s in became:
                p1[s] = became[s]
                continue
            if s in closing:
                ser = st.c.call(BUSNAME, BUSPATH, 'org.freedesktop.DBus.Peer', 'Ping')
                rec_ops[s].append({'k': 'close', 'ser': ser})
                p1[s] = ser
            elif wrote:
                r = self.write_op(s, {'k': 'ping'})
                rec_ops[s].append(r)
                p1[s] = r['ser']
        # phase 1b: everybody reads up to its own barrier reply
        for s in order:
            if s in p1:
                ok = self.read_until(s, p1[s], obs[s])
                if s in became and ok and obs[s] and obs[s][-1]['ty'] == 2:
                    self.slots[s].monitor = True
                if s in closing:
                    st = self.slots[s]
                    if not ok and st.eof:
                        eof_early.append(s)      # the daemon had closed it before the client did
                    st.c.close()
                    st.closed = True
        # give the daemon a moment to process client closes (the model does not depend on it) -- except for clients
        # that wrote and left without a farewell ping: the bus has dispatched all they wrote only when it has seen
        # their end-of-file, i.e. when it has closed its side
        left = [s for s in leaving if any(o['k'] == 'aclose' for o in rec_ops[s])]
        if closing or left:
            t0 = time.time()
            busy = any(o['k'] not in ('aclose', 'connect') for s in left for o in rec_ops[s])
            while time.time() - t0 < (5.0 if busy else 1.0 if closing else 0.3) and self.daemon.nfds() > nfd_before - len(closing) - len(left) + \
                    sum(1 for s in rec_ops for o in rec_ops[s] if o['k'] == 'connect'):
                time.sleep(0.002)
        if self.noexec_wait:
            # a start that cannot succeed (no such program) has failed by now: the daemon's log says when
            # (requests of clients that pinged after writing are in the log already; the others get a moment)
            time.sleep(0.25 if any(s not in p1 for s in rec_ops if rec_ops[s]) else 0.03)
            t0 = time.time()
            while time.time() - t0 < 5.0 and any(self.start_under_way(a['n']) for a in (self.cfg.get('act') or [])
                                                 if a['kind'] == 'noexec'):
                time.sleep(0.005)
            time.sleep(0.03)
        # phase 2: closing barrier
        sync = []
        for s in sorted(self.slots):
            st = self.slots[s]
            if st.closed or st.eof or st.monitor or st.mute or st.stalled:
                continue
            ser = st.c.call(BUSNAME, BUSPATH, 'org.freedesktop.DBus.Peer', 'Ping')
            ok = self.read_until(s, ser, obs[s])
            sync.append({'s': s, 'ser': ser})
        for s in sorted(self.slots):
            st = self.slots[s]
            if st.monitor and not st.closed and not st.eof:
                self.drain(s, obs[s])
        # a client that left a message unfinished cannot ping; look whether the daemon hung up on it
        if any(st.mute and not st.closed for st in self.slots.values()):
            time.sleep(0.01)
            for s in sorted(self.slots):
                st = self.slots[s]
                if st.mute and not st.closed and not st.eof:
                    self.drain(s, obs[s], quiet=0.02)
        # bind the unique name the bus handed out (after every inbox of this round has been read)
        for s, idxs in hello_idx.items():
            for i in idxs:
                ser = rec_ops[s][i]['ser']
                got = []
                for m in obs[s]:
                    if m['ty'] == 2 and m['rs'] == ser and m['args'] and m['args'][0]['t'] == 115:
                        got = m['args'][0]['v']
                rec_ops[s][i]['got'] = got
                if got:
                    self.slots[s].c.unique = bytes(got).decode('latin-1')
        eof = list(eof_early)
        for s in sorted(self.slots):
            st = self.slots[s]
            if st.eof and not st.closed:
                eof.append(s)
                st.c.close()
                st.closed = True
        # timing windows for pending-reply expiry (one-sided, see BusTrace.TExpire / TEnd)
        t_end = time.monotonic()
        T = self.cfg.get('replyTimeoutMs')
        exp_may, exp_must = 0, 0
        if T is not None:
            for idx, (ts, te) in self.times.items():
                if t_end - ts >= T / 1000.0:
                    exp_may = max(exp_may, idx)
                if t_start - te >= 3 * T / 1000.0 + 2.0:
                    exp_must = max(exp_must, idx)
        self.times[len(self.lines) + 1] = (t_start, t_end)
        if T is not None and t_end - t_start >= T / 1000.0:
            exp_may = max(exp_may, len(self.lines) + 1)     # the round itself lasted longer than the timeout
        A = self.cfg.get('actTimeoutMs')
        act_may, act_must = 0, 0
        if A is not None and self.actdir:
            for idx, (ts, te) in self.times.items():
                if t_end - ts >= A / 1000.0:
                    act_may = max(act_may, idx)
                if t_start - te >= 3 * A / 1000.0 + 2.0:
                    act_must = max(act_must, idx)
            if t_end - t_start >= A / 1000.0:
                act_may = max(act_may, len(self.lines) + 1)
        line = {'e': 'Round', 'actMay': act_may, 'actMust': act_must, 'starts': self.daemon_starts(), 'expMay': exp_may, 'expMust': exp_must, 'ops': [rec_ops[s] for s in sorted(self.slots)], 'sync': sync,
                'obs': [obs[s] for s in sorted(self.slots)], 'eof': eof, 'stall': self.stall}
        if pre:
            line['pre'] = pre
        if stalled_now:
            line['stalled'] = stalled_now
        self.lines.append(line)
        return line

    # -- activation
    def act_kind(self, n):
        for a in self.cfg.get('act') or []:
            if a['n'] == n:
                return a['kind']
        return None

    def stub_starts(self):
        """(name, pid) of every stub process that has reported in"""
        try:
            return [(ln.split()[0], int(ln.split()[1])) for ln in open(os.path.join(self.actdir, 'ctl', 'starts.log')) if ln.strip()]
        except OSError:
            return []

    def svc_exit(self, op):
        """make the process the bus started for op['n'] end (status / signal); None if there is none running"""
        if not self.actdir:
            return None
        # the process in question is the one the daemon started last for this name, if that start is still
        # under way according to the daemon's own log: wait for it to report in
        if not self.start_under_way(op['n']):
            return None
        t0 = time.time()
        said = sum(d['k'] for d in self.daemon_starts() if d['n'] == B(op['n']))
        mine = []
        while time.time() - t0 < 4.0:
            mine = [p for n, p in self.stub_starts() if n == op['n']]
            if len(mine) >= said or not self.start_under_way(op['n']):
                break
            time.sleep(0.01)
        pid = mine[-1] if mine and len(mine) >= said else None
        if pid is not None and (pid in self.exited or not os.path.exists('/proc/%d' % pid)):
            pid = None
        if pid is None:
            return None
        self.exited.add(pid)
        ctl = os.path.join(self.actdir, 'ctl')
        with open(os.path.join(ctl, 'cmd.tmp'), 'w') as f:
            f.write('%s %d\n' % ('kill' if op.get('signaled') else 'exit', op.get('status', 0)))
        os.rename(os.path.join(ctl, 'cmd.tmp'), os.path.join(ctl, 'cmd.%d' % pid))
        t0 = time.time()
        while time.time() - t0 < 2.0:
            try:
                if open('/proc/%d/stat' % pid).read().split(')')[-1].split()[0] in 'ZX':
                    break
            except OSError:
                break
            time.sleep(0.003)
        # the babysitter's report reaches the daemon: a failed start is over when the daemon's log says so
        # (an exit with status 0 ends nothing, there is nothing to wait for)
        if op.get('signaled') or op.get('status', 0) != 0:
            t0 = time.time()
            while time.time() - t0 < 5.0 and self.start_under_way(op['n']):
                time.sleep(0.005)
        time.sleep(0.06)
        return {'k': 'svc_exit', 'n': B(op['n']), 'status': op.get('status', 0), 'signaled': bool(op.get('signaled'))}

    def start_under_way(self, n):
        try:
            log = open(self.daemon.errlog, errors='replace').read().splitlines()
        except OSError:
            return False
        state = False
        for ln in log:
            if "Activating service name='%s' requested" % n in ln:
                state = True
            elif ("Successfully activated service '%s'" % n in ln or "Activated service '%s' failed" % n in ln
                  or "Failed to activate service '%s'" % n in ln or "Failed to activate service %s:" % n in ln):
                state = False
        return state

    def daemon_starts(self):
        """how often the daemon says it started a process for each activatable name"""
        if not self.actdir:
            return []
        try:
            log = open(self.daemon.errlog, errors='replace').read()
        except OSError:
            log = ''
        return [{'n': B(a['n']), 'k': log.count("Activating service name='%s' requested" % a['n'])} for a in self.cfg['act']]

    def strangers(self, acts):
        """connections that never authenticate: {'n': count, 'bytes': hex, 'keep': bool}"""
        out = []
        for a in acts:
            for _ in range(a.get('n', 1)):
                try:
                    sk = socket.socket(socket.AF_UNIX, socket.SOCK_STREAM)
                    sk.settimeout(2.0)
                    sk.connect(('\0' + self.daemon.path) if self.daemon.abstract else self.daemon.path)
                    data = bytes.fromhex(a.get('hex', ''))
                    if a.get('flood'):
                        # as much as the bus will take of `flood` repetitions, never reading what it answers
                        sk.setblocking(False)
                        blob = data * 400
                        sent_total = 0
                        t0 = time.time()
                        while sent_total < len(data) * a['flood'] and time.time() - t0 < 1.5:
                            try:
                                sent_total += sk.send(blob)
                            except (BlockingIOError, InterruptedError):
                                time.sleep(0.02)
                        sk.setblocking(True)
                    elif data:
                        sk.sendall(data)
                    if a.get('keep'):
                        self.kept.append(sk)
                    else:
                        sk.close()
                except OSError:
                    pass
            out.append({'n': a.get('n', 1), 'len': len(a.get('hex', '')) // 2, 'keep': bool(a.get('keep'))})
        while len(self.kept) > 24:
            self.kept.pop(0).close()
        return out

    def slot_of_unique(self, name_bytes):
        for s, st in self.slots.items():
            if not st.closed and st.c is not None and st.c.unique is not None and B(st.c.unique) == name_bytes:
                return s
        return None

    def reveal_queues(self, names, fresh):
        """flag-revealing epilogue (ordinary recorded traffic): a fresh connection tries to replace the primary
        owner of each name (shows allow_replacement of the head and, when replaced, its do_not_queue), then
        the primary releases, until the queue is empty."""
        self.run_round({'ops': {str(fresh): [{'k': 'connect', 'uid': 0}, {'k': 'hello'}]}})
        if self.slots[fresh].closed:
            return
        for n in names:
            for _ in range(len(self.slots) + 2):
                ln = self.run_round({'ops': {str(fresh): [{'k': 'req', 'n': n, 'f': 6}, {'k': 'query', 'q': 'queued', 'n': n},
                                                         {'k': 'rel', 'n': n}, {'k': 'query', 'q': 'owner', 'n': n}]}})
                ops = ln['ops'][fresh - 1]
                ser = [o['ser'] for o in ops if o['k'] == 'query' and o['q'] == 'owner'][0]
                owner = None
                for m in ln['obs'][fresh - 1]:
                    if m['rs'] == ser and m['ty'] == 2:
                        owner = self.slot_of_unique(m['args'][0]['v'])
                if owner is None:
                    break
                self.run_round({'ops': {str(owner): [{'k': 'rel', 'n': n}, {'k': 'query', 'q': 'queued', 'n': n}]}})

    def daemon_cpu_ticks(self):
        try:
            f = open('/proc/%d/stat' % self.daemon.pid).read().rsplit(')', 1)[1].split()
            return int(f[11]) + int(f[12])          # utime + stime, in clock ticks
        except (OSError, IndexError, ValueError):
            return None

    def idle_cpu(self):
        """processor time the daemon burns while nobody asks it anything (every connection still open, nothing being
        written or read by the driver): two windows, the quieter one counts (work in progress ends, a spin does not)"""
        tick_ms = 1000.0 / os.sysconf('SC_CLK_TCK')
        best = None
        for _ in range(2):
            a = self.daemon_cpu_ticks()
            time.sleep(0.3)
            b = self.daemon_cpu_ticks()
            if a is None or b is None:
                return None
            used = int((b - a) * tick_ms)
            best = used if best is None else min(best, used)
            if best * 4 <= 300:
                break
        return best

    def finish(self):
        idle = self.idle_cpu() if self.daemon.alive() else None
        for sk in self.kept:
            sk.close()
        for st in self.slots.values():
            if st.c is not None and not st.closed:
                st.c.close()
        # every client is gone: the daemon's descriptor table must go back to where it started
        if self.daemon.alive():
            t0 = time.time()
            while time.time() - t0 < 3.0 and self.daemon.nfds() != self.base_fds:
                time.sleep(0.01)
            fin = {'e': 'Final', 'fdleak': self.daemon.nfds() - self.base_fds, 'stublog': []}
            if idle is not None:
                fin['idlecpu'] = idle          # ms of processor time in a 300 ms window of silence
                fin['idlewin'] = 300
            if self.actdir:
                t0 = time.time()
                want = {bytes(d['n']).decode(): d['k'] for d in self.daemon_starts()}
                while time.time() - t0 < 0.6:
                    st = self.stub_starts()
                    if all(sum(1 for n, _p in st if n == a['n']) >= want.get(a['n'], 0) for a in self.cfg['act'] if a['kind'] == 'ok'):
                        break
                    time.sleep(0.02)
                time.sleep(0.05)
                st = self.stub_starts()
                fin['stublog'] = [{'n': B(a['n']), 'k': sum(1 for n, _p in st if n == a['n'])} for a in self.cfg['act']
                                  if a['kind'] == 'ok']
                open(os.path.join(self.actdir, 'ctl', 'stopall'), 'w').close()
            self.lines.append(fin)
        res = self.daemon.stop()
        if self.actdir:
            try:
                open(os.path.join(self.actdir, 'ctl', 'stopall'), 'w').close()
            except OSError:
                pass
            time.sleep(0.02)
            import shutil
            shutil.rmtree(self.actdir, ignore_errors=True)
        if res['crashed']:
            self.lines.append({'e': 'Crash', 'rc': res['rc'], 'report': res['report']})
        return res


def _txt(x):
    """scenario text: str, or {"hex": "..."} for arbitrary bytes"""
    if isinstance(x, dict):
        return bytes.fromhex(x['hex'])
    return x


def _body(sig, vals):
    out = []
    for s, v in zip(split_sig(sig), vals):
        out.append(_conv(s, v))
    return out


def _conv(s, v):
    c = s[0]
    if c in 'sog':
        return _txt(v)
    if c == 'a':
        return [_conv(s[1:], x) for x in v]
    if c in '({':
        return tuple(_conv(t, x) for t, x in zip(split_sig(s[1:-1]), v))
    if c == 'v':
        return (v[0], _conv(v[0], v[1]))
    return v


def run_scenario(build, scn):
    d = Driver(build, scn.get('cfg'), daemon_kw=scn.get('daemon_kw'))
    try:
        for rnd in scn['rounds']:
            d.run_round(rnd)
        if scn.get('reveal'):
            d.reveal_queues(scn['reveal']['names'], scn['reveal']['fresh'])
    finally:
        d.finish()
    return d.lines


def dump(lines, fh):
    for ln in lines:
        fh.write(json.dumps(ln, separators=(',', ':')) + '\n')

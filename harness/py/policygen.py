"""Policy rule lists: one python dict per rule, rendered both as bus configuration XML and as the JSON record
PolicyOps.tla reads.  Defaults follow bus/config-parser.c: requested_reply defaults to true on allow rules and
false on deny rules; eavesdrop defaults to false; "*" means "any"."""
from busdrv import B

TYPES = {'method_call': 1, 'method_return': 2, 'error': 3, 'signal': 4}


def rule(kind, allow, **kw):
    """kind: send | recv | own.  kw: ty, path, ifc, mem, err, peer, prefix, bcast(True/False), rr, eav, minf, maxf, name, nprefix"""
    r = {'k': kind, 'allow': allow}
    r.update(kw)
    return r


def to_json(r):
    return {'k': r['k'], 'allow': bool(r['allow']), 'ty': TYPES.get(r.get('ty'), 0), 'path': B(r.get('path')),
            'ifc': B(r.get('ifc')), 'mem': B(r.get('mem')), 'err': B(r.get('err')), 'peer': B(r.get('peer')),
            'prefix': bool(r.get('prefix', False)),
            'bcast': 0 if r.get('bcast') is None else (1 if r['bcast'] else 2),
            'rr': bool(r['rr']) if r.get('rr') is not None else bool(r['allow']),
            'eav': bool(r.get('eav', False)), 'minf': r.get('minf', 0), 'maxf': r.get('maxf', -1),
            'name': B(r.get('name')), 'nprefix': bool(r.get('nprefix', False))}


def to_xml(r):
    tag = 'allow' if r['allow'] else 'deny'
    a = []
    if r['k'] == 'own':
        if r.get('nprefix'):
            a.append(('own_prefix', r['name']))
        else:
            a.append(('own', r.get('name') or '*'))
    else:
        p = 'send_' if r['k'] == 'send' else 'receive_'
        for key, attr in (('ty', 'type'), ('path', 'path'), ('ifc', 'interface'), ('mem', 'member'), ('err', 'error')):
            if r.get(key):
                a.append((p + attr, r[key]))
        if r.get('peer'):
            if r['k'] == 'send':
                a.append(('send_destination_prefix' if r.get('prefix') else 'send_destination', r['peer']))
            else:
                a.append(('receive_sender', r['peer']))
        if r['k'] == 'send' and r.get('bcast') is not None:
            a.append(('send_broadcast', 'true' if r['bcast'] else 'false'))
        if r.get('rr') is not None:
            a.append((p + 'requested_reply', 'true' if r['rr'] else 'false'))
        if r.get('eav') is not None and 'eav' in r:
            a.append(('eavesdrop', 'true' if r['eav'] else 'false'))
        if r.get('minf'):
            a.append(('min_fds', str(r['minf'])))
        if r.get('maxf', -1) != -1:
            a.append(('max_fds', str(r['maxf'])))
        if not any(k.startswith(p) for k, _v in a):
            # make the direction explicit ("eavesdrop" alone would be read as a receive rule): any destination / any sender
            a.insert(0, ('send_destination', '*') if r['k'] == 'send' else ('receive_sender', '*'))
    return '<%s %s/>' % (tag, ' '.join('%s="%s"' % kv for kv in a))


def policy(ctxs, groups_of=None):
    """ctxs: list of (context, id, [rules]) in file order; returns (xml text, json record)"""
    xml = []
    js = []
    for c, ident, rules in ctxs:
        if c == 'default':
            head = '<policy context="default">'
        elif c == 'mandatory':
            head = '<policy context="mandatory">'
        elif c == 'user':
            head = '<policy user="%d">' % ident
        elif c == 'group':
            head = '<policy group="%d">' % ident
        elif c == 'console_f':
            head = '<policy at_console="false">'
        elif c == 'console_t':
            head = '<policy at_console="true">'
        else:
            raise ValueError(c)
        body = ['    <allow user="*"/>'] if c == 'default' else []
        body += ['    ' + to_xml(r) for r in rules]
        xml.append('  ' + head + '\n' + '\n'.join(body) + '\n  </policy>')
        js.append({'c': c, 'id': ident or 0, 'rules': [to_json(r) for r in rules]})
    rec = {'kind': 'rules', 'prune': False, 'ctx': js,
           'groupsOf': [{'uid': int(u), 'gids': sorted(g)} for u, g in (groups_of or {}).items()]}
    return '\n'.join(xml), rec


PEER_OK = [rule('send', True, ifc='org.freedesktop.DBus.Peer', peer='org.freedesktop.DBus')]

# system-bus-like policy: requested replies only, calls only to the example prefix, signals free
SYSTEM_LIKE = [('default', 0, [
    rule('send', False, ty='method_call'),
    rule('send', True, ty='signal'),
    rule('send', True, ty='method_return', rr=True),
    rule('send', True, ty='error', rr=True),
    rule('recv', True, ty='method_call'),
    rule('recv', True, ty='signal'),
    rule('recv', True, ty='method_return', rr=True),
    rule('recv', True, ty='error', rr=True),
    rule('send', True, peer='org.freedesktop.DBus'),
    rule('send', True, ty='method_call', peer='com.example', prefix=True),
    rule('own', False),
    rule('own', True, name='com.example', nprefix=True),
])]


# ---------------------------------------------------------------------------------------------------------------
# random configurations (C06)
P_IFACES = ['com.example.I', 'com.example.J']
P_NAMES = ['com.example.A', 'com.example.B', 'com.example.A.Sub']


def random_rule(rng):
    r = rng.random()
    allow = rng.random() < 0.5
    if r < 0.18:
        c = rng.random()
        if c < 0.3:
            return rule('own', allow)
        if c < 0.65:
            return rule('own', allow, name=rng.choice(P_NAMES))
        return rule('own', allow, name=rng.choice(['com.example', 'com.example.A', 'com']), nprefix=True)
    kind = 'send' if r < 0.62 else 'recv'
    kw = {}
    if rng.random() < 0.45:
        kw['ty'] = rng.choice(['method_call', 'signal', 'method_return', 'error'])
    base = rng.random()
    if base < 0.3:
        kw['ifc'] = rng.choice(P_IFACES)
        if rng.random() < 0.4:
            kw['mem'] = rng.choice(['Ma', 'Mb'])
    elif base < 0.38:
        kw['err'] = rng.choice(['com.example.Err', 'org.freedesktop.DBus.Error.Failed'])
    if rng.random() < 0.2:
        kw['path'] = rng.choice(['/a', '/a/b'])
        if 'mem' not in kw and 'err' not in kw and rng.random() < 0.3:
            kw['mem'] = 'Ma'
    if rng.random() < 0.4:
        if kind == 'send':
            if rng.random() < 0.3:
                kw['peer'] = rng.choice(['com.example', 'com.example.A', 'com', 'com.example.A.Sub', 'org.freedesktop', 'org.freedesktop.DBus',
                                         'org', 'org.freedesktop.DBus.Private'])
                kw['prefix'] = True
            else:
                kw['peer'] = rng.choice(P_NAMES + ['org.freedesktop.DBus'])
        else:
            kw['peer'] = rng.choice(P_NAMES + ['org.freedesktop.DBus'])
    if kind == 'send' and rng.random() < 0.15 and not (kw.get('peer') and not kw.get('prefix')):
        kw['bcast'] = rng.random() < 0.5
    if kind == 'send' and kw.get('bcast') and kw.get('peer'):
        kw.pop('bcast')
    if rng.random() < 0.25:
        kw['rr'] = rng.random() < 0.5
    if rng.random() < 0.2:
        kw['eav'] = rng.random() < 0.6
    return rule(kind, allow, **kw)


def random_ctxs(rng, uids=(0, 1000, 65534)):
    """policy elements in file order; ends with the fixed mandatory tail that keeps the driver usable"""
    ctxs = []
    base = [rule('send', True), rule('recv', True), rule('own', True)] if rng.random() < 0.6 else []
    ctxs.append(['default', 0, base + [random_rule(rng) for _ in range(rng.randint(0, 4))]])
    for _ in range(rng.randint(0, 3)):
        c = rng.choice(['user', 'user', 'group', 'group', 'group', 'default', 'console_f', 'mandatory'])
        ident = rng.choice(uids) if c == 'user' else rng.choice([0, 1000, 2, 2, 3, 3, 65534]) if c == 'group' else 0
        ctxs.append([c, ident, [random_rule(rng) for _ in range(rng.randint(1, 3))]])
    if rng.random() < 0.7:
        ctxs.append(['mandatory', 0, [rule('send', True, peer='org.freedesktop.DBus'), rule('recv', True, peer='org.freedesktop.DBus')]])
    else:
        # a narrower tail: only what the harness itself needs (Hello, barrier pings, everything the bus says) is guaranteed;
        # every other request to the bus driver is decided by the random rules above (destination and prefix rules naming
        # org.freedesktop.DBus are judged without a recipient connection)
        ctxs.append(['mandatory', 0, [rule('send', True, ifc='org.freedesktop.DBus.Peer', peer='org.freedesktop.DBus'),
                                      rule('send', True, ifc='org.freedesktop.DBus', mem='Hello', peer='org.freedesktop.DBus'),
                                      rule('recv', True, peer='org.freedesktop.DBus')]])
    return ctxs


# the groups of the three users, ascending (what the bus reads from the socket: supplementary groups plus the effective gid, sorted)
# (only groups that exist in the group database can be named in the configuration: a section for an unknown group is
# dropped with a warning -- 2 = bin, 3 = sys on every Debian-like system)
GROUPS_OF = {0: [0], 1000: [2, 3, 1000], 65534: [2, 65534]}
ALL_GIDS = [0, 2, 3, 1000, 65534]

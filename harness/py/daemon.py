"""Spawn a dbus-daemon built from the working tree with a generated configuration."""
import os
import signal
import subprocess
import tempfile
import shutil
import time

def harness_bin(build, name):
    """path of a C harness / helper program compiled by tools/build.sh for this checkout"""
    import hashlib
    root = os.path.abspath(os.path.join(os.path.dirname(os.path.abspath(__file__)), '..', '..'))
    return os.path.join(os.path.dirname(os.path.abspath(build)), 'harness-' + hashlib.md5(root.encode()).hexdigest()[:8], name)


DEFAULT_POLICY = '''<policy context="default">
    <allow send_destination="*" eavesdrop="true"/>
    <allow eavesdrop="true"/>
    <allow own="*"/>
    <allow user="*"/>
  </policy>'''


def make_config(workdir, policy=DEFAULT_POLICY, limits=None, servicedirs=(), bustype='session',
                extra='', auth=('EXTERNAL',), helper=None):
    lim = ''.join('  <limit name="%s">%d</limit>\n' % kv for kv in (limits or {}).items())
    sd = ''.join('  <servicedir>%s</servicedir>\n' % d for d in servicedirs)
    au = ''.join('  <auth>%s</auth>\n' % a for a in auth)
    hp = ('  <servicehelper>%s</servicehelper>\n' % helper) if helper else ''
    typ = ('  <type>%s</type>\n' % bustype) if bustype else ''
    return '''<!DOCTYPE busconfig PUBLIC "-//freedesktop//DTD D-Bus Bus Configuration 1.0//EN"
 "http://www.freedesktop.org/standards/dbus/1.0/busconfig.dtd">
<busconfig>
%s  <listen>unix:dir=%s</listen>
%s%s%s  %s
%s%s</busconfig>
''' % (typ, workdir, au, sd, hp, policy, lim, extra)


class Daemon:
    def __init__(self, build, config_text=None, workdir=None, **cfgkw):
        self.build = build
        self.own_dir = workdir is None
        self.dir = workdir or tempfile.mkdtemp(prefix='vd-', dir=os.environ.get('VERIF_TMP', '/tmp'))
        os.chmod(self.dir, 0o777)
        self.conf = os.path.join(self.dir, 'bus.conf')
        if config_text is None:
            config_text = make_config(self.dir, **cfgkw)
        self.write_config(config_text)
        self.errlog = os.path.join(self.dir, 'stderr.log')
        env = dict(os.environ)
        env['ASAN_OPTIONS'] = 'detect_leaks=0:abort_on_error=1:log_path=%s/asan' % self.dir
        env['UBSAN_OPTIONS'] = 'print_stacktrace=1:halt_on_error=1:log_path=%s/ubsan' % self.dir
        env['LD_LIBRARY_PATH'] = os.path.join(build, 'lib')
        env.pop('DBUS_SESSION_BUS_ADDRESS', None)
        self.err = open(self.errlog, 'wb')
        self.p = subprocess.Popen([os.path.join(build, 'bin', 'dbus-daemon'), '--config-file=' + self.conf,
                                   '--print-address', '--nofork', '--nosyslog'],
                                  stdout=subprocess.PIPE, stderr=self.err, env=env, cwd=self.dir)
        line = self.p.stdout.readline().decode().strip()
        if not line.startswith('unix:'):
            raise RuntimeError('daemon did not start: %r %s' % (line, open(self.errlog).read()[-2000:]))
        self.address = line
        self.path = None
        self.abstract = False
        for kv in line[5:].split(','):
            k, _, v = kv.partition('=')
            if k == 'path':
                self.path = v
            elif k == 'abstract':
                self.path = v
                self.abstract = True
        self.pid = self.p.pid

    def write_config(self, text):
        with open(self.conf + '.tmp', 'w') as f:
            f.write(text)
        os.rename(self.conf + '.tmp', self.conf)

    def alive(self):
        return self.p.poll() is None

    def nfds(self):
        try:
            return len(os.listdir('/proc/%d/fd' % self.pid))
        except OSError:
            return -1

    def sanitizer_report(self):
        out = []
        for fn in os.listdir(self.dir):
            if fn.startswith('asan') or fn.startswith('ubsan'):
                out.append(open(os.path.join(self.dir, fn), errors='replace').read()[:4000])
        try:
            e = open(self.errlog, errors='replace').read()
            if 'runtime error' in e or 'AddressSanitizer' in e or 'assertion failed' in e.lower():
                out.append(e[-4000:])
        except OSError:
            pass
        return out

    def stop(self):
        rc = self.p.poll()
        if rc is None:
            self.p.send_signal(signal.SIGTERM)
            try:
                rc = self.p.wait(5)
            except subprocess.TimeoutExpired:
                self.p.kill()
                rc = self.p.wait()
            crashed = False
        else:
            crashed = True
        rep = self.sanitizer_report()
        self.err.close()
        try:
            self.p.stdout.close()
        except Exception:
            pass
        if self.own_dir:
            shutil.rmtree(self.dir, ignore_errors=True)
        return {'rc': rc, 'crashed': crashed or bool(rep), 'report': rep}

"""Case generators for the grammar predicates (C16): exhaustive enumeration over small class alphabets,
single-site perturbations of long strings, length boundaries."""
import itertools
import random
from dbuswire import build_message, SIGNAL, METHOD_CALL, F_PATH, F_INTERFACE, F_MEMBER, F_DESTINATION, F_ERROR_NAME, \
    F_REPLY_SERIAL, ERROR, F_SENDER

NAME_ALPHA = [b'a', b'Z', b'0', b'_', b'-', b'.', b':', b'/', b'\x00', b'\x80', b' ', b'\xc1', b'\xfa']
PATH_ALPHA = [b'a', b'0', b'_', b'/', b'-', b'.', b'\x00', b'\x80', b'\xc1', b'\xfa']
SIG_ALPHA = [b'y', b'i', b's', b'a', b'v', b'(', b')', b'{', b'}', b'h', b'z']
UTF8_CLASSES = [0x00, 0x41, 0x7f, 0x80, 0x8f, 0x90, 0x9f, 0xa0, 0xbf, 0xc0, 0xc1, 0xc2, 0xdf, 0xe0, 0xe1, 0xec, 0xed, 0xee,
                0xef, 0xf0, 0xf1, 0xf3, 0xf4, 0xf5, 0xff]


def msg_with(g, s):
    """a message that is valid except possibly for the string s used in the role of grammar g; None = no such route.
    The header validator works on a slice of the header: in every second case (decided by the string itself) more fields
    follow the one under test, with dots, slashes and colons of their own, which must not leak into the verdict"""
    more = (sum(bytes(s)) + len(s)) % 2 == 1
    try:
        if g == 'bus':
            f = {F_PATH: '/a', F_INTERFACE: 'a.b', F_MEMBER: 'M', F_DESTINATION: s}
            if more:
                f[F_SENDER] = ':1.7'
            return build_message(SIGNAL, 1, f)
        if g == 'ifc':
            f = {F_PATH: '/a', F_INTERFACE: s, F_MEMBER: 'M'}
            if more:
                f[F_DESTINATION] = 'org.example.Dest'
                f[F_SENDER] = ':1.7'
            return build_message(SIGNAL, 1, f)
        if g == 'mem':
            f = {F_PATH: '/a', F_INTERFACE: 'a.b', F_MEMBER: s}
            if more:
                f[F_DESTINATION] = 'org.example.Dest'
            return build_message(SIGNAL, 1, f)
        if g == 'err':
            f = {F_ERROR_NAME: s, F_REPLY_SERIAL: 1}
            if more:
                f[F_DESTINATION] = ':1.5'
                f[F_SENDER] = 'org.example.Sender'
            return build_message(ERROR, 1, f)
        if g == 'path':
            return build_message(SIGNAL, 1, {F_PATH: '/a', F_INTERFACE: 'a.b', F_MEMBER: 'M'}, 'o', [s])
        if g == 'sig':
            if len(s) > 255:
                return None
            return build_message(SIGNAL, 1, {F_PATH: '/a', F_INTERFACE: 'a.b', F_MEMBER: 'M'}, 'g', [s])
        if g == 'utf8':
            return build_message(SIGNAL, 1, {F_PATH: '/a', F_INTERFACE: 'a.b', F_MEMBER: 'M'}, 's', [s])
    except Exception:
        return None
    return None


def case(g, s):
    s = bytes(s)
    m = msg_with(g, s)
    return {'k': 'syn', 'g': g, 'b': list(s), 'mb': list(m) if m else [], '_line': '%s %s %s' % (g, s.hex() or '-', m.hex() if m else '-'),
            # the message is valid iff the string is (all other parts are valid by construction); for object paths and
            # interface names the message route also forbids the reserved Local names, which these alphabets cannot spell
            'mvalid': 1}


def enum(alpha, maxlen):
    for n in range(0, maxlen + 1):
        for t in itertools.product(alpha, repeat=n):
            yield b''.join(t)


def cases(rng, quick=True):
    out = []
    L = 4 if quick else 5
    for g in ('bus', 'ifc', 'mem', 'err'):
        for s in enum(NAME_ALPHA, L):
            out.append(case(g, s))
    for s in enum(PATH_ALPHA, L + 1 if quick else 6):
        out.append(case('path', s))
    for s in enum(SIG_ALPHA, 4 if quick else 5):
        out.append(case('sig', s))
        out.append(case('sig1', s))
    for s in enum([b'a', b'.', b'_', b'-', b'1', b'/'], 5):
        out.append(case('busns', s))
    # UTF-8: all class combinations up to length 3 (quick) / 4, then single-site perturbation of ASCII runs
    for n in range(1, 4 if quick else 5):
        for t in itertools.product(UTF8_CLASSES, repeat=n):
            out.append(case('utf8', bytes(t)))
    for ln in list(range(1, 34)) + [40, 63, 64, 65]:
        for pos in range(ln):
            for bad in (0x00, 0x80, 0xbf, 0xc0, 0xff, 0xc2):
                s = bytearray(b'a' * ln)
                s[pos] = bad
                out.append(case('utf8', s))
        # a valid 2/3/4-byte character at every offset
        for ch in ('é', '€', '\U0001F600'):
            e = ch.encode()
            for pos in range(0, max(1, ln - len(e) + 1), 3):
                s = b'a' * pos + e + b'a' * max(0, ln - pos - len(e))
                out.append(case('utf8', s))
                out.append(case('utf8', s[:-1]))          # truncated last char or shorter ascii
    # every byte value at the start, in the middle and at the end of an otherwise valid name of each grammar
    for g, pre, post in (('bus', b'a.b', b'c'), ('ifc', b'a.b', b'c'), ('err', b'a.b', b'c'), ('mem', b'ab', b'c'), ('path', b'/ab', b'c'),
                         ('bus', b':1.b', b'2'), ('busns', b'a.b', b'c')):
        for v in range(256):
            out.append(case(g, pre + bytes([v]) + post))
            out.append(case(g, pre + bytes([v])))
            out.append(case(g, bytes([v]) + pre[1:] + post) if g != 'path' else case(g, b'/' + bytes([v]) + post))
    # length limits
    for g, mk in (('bus', lambda n: b'a.' + b'b' * (n - 2)), ('ifc', lambda n: b'a.' + b'b' * (n - 2)),
                  ('mem', lambda n: b'm' * n), ('err', lambda n: b'a.' + b'b' * (n - 2)),
                  ('bus', lambda n: b':1.' + b'2' * (n - 3))):
        for n in (254, 255, 256, 257):
            out.append(case(g, mk(n)))
    for n in (254, 255, 256):
        out.append(case('sig', b'i' * n))
    for d in (31, 32, 33):
        out.append(case('sig', b'a' * d + b'i'))
        out.append(case('sig', b'(' * d + b'i' + b')' * d))
        out.append(case('sig', b'a(' * d + b'i' + b')' * d))
        out.append(case('sig', b'a{s' * d + b'i' + b'}' * d))
    out.append(case('sig', b'(' * 32 + b'a' * 32 + b'i' + b')' * 32))
    out.append(case('sig', b'(' * 32 + b'a' * 33 + b'i' + b')' * 32))
    out.append(case('sig', b'a(' * 32 + b'ai' + b')' * 32))
    # mis-nested containers: every string over {s, a, (, ), {, }} of length 5..7 (8) whose bracket COUNTS balance and
    # whose dict entries follow an array -- the strings a validator that counts instead of nesting would let through
    for n in range(5, 8 if quick else 9):
        for t in itertools.product([b's', b'a', b'(', b')', b'{', b'}'], repeat=n):
            s = b''.join(t)
            if s.count(b'(') == s.count(b')') and s.count(b'{') == s.count(b'}') and s.count(b'{') >= 1 \
                    and s.count(b'(') >= 1 and s.count(b'a{') == s.count(b'{') and b'()' not in s:
                out.append(case('sig', s))
                out.append(case('sig1', s))
    # random strings around the limit
    for _ in range(200 if quick else 2000):
        g = rng.choice(['bus', 'ifc', 'mem', 'err', 'path'])
        n = rng.choice([253, 254, 255, 256])
        al = NAME_ALPHA[:6] if g != 'path' else PATH_ALPHA[:4]
        s = b''.join(rng.choice(al) for _ in range(n))
        out.append(case(g, s))
    return out

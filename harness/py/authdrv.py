"""SASL conversations with the real dbus-daemon over raw sockets (C08).  Each conversation is a list of abstract
commands (see spec/lib/AuthOps.tla); the driver renders them to protocol lines, records the server's answers and,
after BEGIN, whether the connection is usable and under which identity."""
import hashlib
import os
import socket
import struct
import time

from dbuswire import Conn, build_message, parse_message, message_length, METHOD_CALL, F_PATH, F_INTERFACE, F_MEMBER, \
    F_DESTINATION, F_REPLY_SERIAL

CONTEXT = 'org_freedesktop_general'


def hexs(s):
    return s.encode().hex() if isinstance(s, str) else bytes(s).hex()


class AuthConn:
    def __init__(self, path, uid):
        self.s = socket.socket(socket.AF_UNIX, socket.SOCK_STREAM)
        self.s.settimeout(5)
        if uid != 0:
            os.setgroups([2])            # the socket's owner is in group bin as well (SO_PEERGROUPS)
            os.setegid(uid)
            os.seteuid(uid)
        try:
            self.s.connect(path)
        finally:
            if uid != 0:
                os.seteuid(0)
                os.setegid(0)
                os.setgroups([])
        self.s.sendall(b'\0')
        self.buf = b''
        self.challenge = None

    def line(self, text, expect=True):
        """send one command line; returns (kind, raw) of the answer line, ('eof', '') on hang-up, ('none','') if no answer expected"""
        try:
            self.s.sendall(text + b'\r\n')
        except OSError:
            return 'eof', ''
        if not expect:
            return 'none', ''
        while b'\r\n' not in self.buf:
            try:
                d = self.s.recv(4096)
            except socket.timeout:
                return 'timeout', ''
            except OSError:
                return 'eof', ''
            if not d:
                return 'eof', ''
            self.buf += d
        i = self.buf.index(b'\r\n')
        ln, self.buf = self.buf[:i], self.buf[i + 2:]
        word = ln.split(b' ', 1)[0]
        kind = {b'OK': 'ok', b'REJECTED': 'rejected', b'DATA': 'data', b'ERROR': 'error', b'AGREE_UNIX_FD': 'agree'}.get(word, 'other')
        return kind, ln.decode('latin-1')

    def is_eof(self, wait=0.3):
        self.s.settimeout(wait)
        try:
            d = self.s.recv(1)
            return d == b''
        except socket.timeout:
            return False
        except OSError:
            return True


def cookie_response(home, server_line, kind):
    """DATA line for the second cookie step; kind: correct | wrong (several sorts) | malformed"""
    payload = bytes.fromhex(server_line.split(' ', 1)[1]).decode() if ' ' in server_line else ''
    parts = payload.split(' ')
    if len(parts) != 3:
        return b'DATA ' + b'00'.hex().encode()
    ctx, cid, chal = parts
    cookie = None
    try:
        for ln in open(os.path.join(home, '.dbus-keyrings', ctx)):
            f = ln.split()
            if f and f[0] == cid:
                cookie = f[2]
    except OSError:
        pass
    mine = 'c0ffee0123456789'
    good = hashlib.sha1(('%s:%s:%s' % (chal, mine, cookie)).encode()).hexdigest()
    if kind == 'correct':
        resp = '%s %s' % (mine, good)
    elif kind == 'wrong-flip':
        resp = '%s %s' % (mine, good[:-1] + ('0' if good[-1] != '0' else '1'))
    elif kind == 'wrong-trunc1':
        resp = '%s %s' % (mine, good[:1])
    elif kind == 'wrong-trunc39':
        resp = '%s %s' % (mine, good[:39])
    elif kind == 'wrong-long':
        resp = '%s %s' % (mine, good + '0')
    elif kind == 'wrong-empty':
        resp = '%s ' % mine
    elif kind == 'wrong-upper':
        resp = '%s %s' % (mine, good.upper() if good.upper() != good else good[::-1])
    elif kind == 'wrong-othercookie':
        resp = '%s %s' % (mine, hashlib.sha1(('%s:%s:%s' % (chal, mine, 'deadbeef')).encode()).hexdigest())
    else:   # malformed: no blank
        resp = mine + good
    return b'DATA ' + resp.encode().hex().encode()


def converse(path, home, sock_uid, cmds, server_user='root'):
    """cmds: list of dicts with the abstract fields; returns the same list with observations added"""
    c = AuthConn(path, sock_uid)
    out = []
    last_data = ''
    dead = False
    nrej = 0
    for cm in cmds:
        r = dict(cm)
        k = cm['c']
        if dead:
            break
        if k == 'auth':
            mech = cm['mech']
            name = {'OTHER': 'KERBEROS_V4', '': ''}.get(mech, mech)
            text = b'AUTH' + ((b' ' + name.encode()) if name else b'')
            if cm['hex'] != 'none':
                ident = {'same': str(sock_uid) if mech != 'DBUS_COOKIE_SHA1' else server_user, 'other': '4242' if mech != 'DBUS_COOKIE_SHA1' else 'nobody',
                         'garbage': 'x y!z', 'empty': ''}[cm['who']]
                if mech == 'ANONYMOUS':
                    ident = 'trace string'
                h = ident.encode().hex()
                if cm['hex'] == 'bad':
                    h = h + 'zz' if h else 'z'
                text += b' ' + h.encode()
        elif k == 'data':
            challenge = bytes.fromhex(last_data.split(' ', 1)[1]).decode('latin-1') if ' ' in last_data else ''
            if cm.get('resp') and cm.get('cookie') and len(challenge.split(' ')) == 3:
                text = cookie_response(home, last_data, cm['respkind'])
            else:
                # (no cookie challenge is outstanding -- e.g. the AUTH that should have produced it was refused: the
                # command is then an ordinary DATA carrying the identity named in the record)
                r['cookie'] = 0
                r['resp'] = 'wrong'
                ident = {'same': str(sock_uid), 'other': '4242', 'garbage': 'x y!z', 'empty': ''}[cm['who']]
                h = ident.encode().hex()
                if cm['hex'] == 'bad':
                    h = (h + 'zz') if h else 'z'
                text = b'DATA' + ((b' ' + h.encode()) if (h or cm['hex'] == 'bad') else b'')
        elif k == 'cancel':
            text = b'CANCEL'
        elif k == 'error':
            text = b'ERROR "nope"'
        elif k == 'fd':
            text = b'NEGOTIATE_UNIX_FD'
        elif k == 'unknown':
            text = b'FROBNICATE now'
        elif k == 'nonascii':
            text = b'AUTH \xc3\xa9'
        elif k == 'begin':
            text = b'BEGIN'
        kind, raw = c.line(text, expect=(k != 'begin'))
        r['out'] = kind if kind != 'eof' else 'none'
        r['eof'] = 1 if kind == 'eof' else 0
        r['mechs'] = raw.split(' ')[1:] if kind == 'rejected' else []
        r['hello'] = 0
        r['ident'] = -1
        r['fdok'] = 0
        r['gids'] = []
        if kind == 'data':
            last_data = raw
        if kind == 'rejected' or kind == 'ok':
            last_data = ''
        if k == 'begin':
            # usable?  say Hello and ask who we are
            ser = 1
            try:
                c.s.sendall(build_message(METHOD_CALL, 1, {F_PATH: '/org/freedesktop/DBus', F_INTERFACE: 'org.freedesktop.DBus',
                                                           F_MEMBER: 'Hello', F_DESTINATION: 'org.freedesktop.DBus'}))
                m = _read_reply(c, 1)
                if m is not None and m.type == 2:
                    r['hello'] = 1
                    me = m.body[0]
                    c.s.sendall(build_message(METHOD_CALL, 2, {F_PATH: '/org/freedesktop/DBus', F_INTERFACE: 'org.freedesktop.DBus',
                                                               F_MEMBER: 'GetConnectionUnixUser', F_DESTINATION: 'org.freedesktop.DBus'}, 's', [me]))
                    m2 = _read_reply(c, 2)
                    if m2 is not None and m2.type == 2:
                        r['ident'] = m2.body[0]
                    # ... and which groups the bus attributes to us
                    c.s.sendall(build_message(METHOD_CALL, 3, {F_PATH: '/org/freedesktop/DBus', F_INTERFACE: 'org.freedesktop.DBus',
                                                               F_MEMBER: 'GetConnectionCredentials', F_DESTINATION: 'org.freedesktop.DBus'}, 's', [me]))
                    m3 = _read_reply(c, 3)
                    if m3 is not None and m3.type == 2:
                        creds = dict((k, v[1]) for k, v in m3.body[0])
                        r['gids'] = sorted(creds.get('UnixGroupIDs', []))
                else:
                    r['eof'] = 1
            except OSError:
                r['eof'] = 1
            dead = True
        elif kind == 'eof':
            dead = True
        elif kind == 'rejected':
            nrej += 1
            # the server gives up after a bounded number of rejections: hang-up expected right after the sixth
            if nrej >= 6 and c.is_eof(2.0):
                r['eof'] = 1
                dead = True
        out.append(r)
    try:
        c.s.close()
    except OSError:
        pass
    return out


def _read_reply(c, serial):
    buf = c.buf
    c.s.settimeout(3)
    while True:
        while len(buf) >= 16 and len(buf) >= message_length(buf[:16]):
            n = message_length(buf[:16])
            m = parse_message(buf[:n])
            buf = buf[n:]
            if m.fields.get(F_REPLY_SERIAL) == serial:
                c.buf = buf
                return m
        try:
            d = c.s.recv(65536)
        except (socket.timeout, OSError):
            return None
        if not d:
            return None
        buf += d
